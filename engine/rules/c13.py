"""C13 — the text parsers return a result for every input and never panic (structural clauses).

R1  panic-site inventory over everything the parser entry points can run (lexer callbacks, grammar actions, FromStr impls,
    check_prog / check_init_args / ast_to_type and the candid / ic_principal functions they reach, Display impls used in
    error messages included); every site needs a committed reason or is decided by R2–R5.
R2  fallible text conversions in the text-facing layer (candid_parser) are propagated, not unwrapped — an unwrap is
    accepted only where R3 has a language obligation for it.
R3  token language ⊆ consumer precondition: regex of the token, pushed through a model of its callback that is matched
    structurally against the callback's HIR, must be included in what an unwrapping consumer accepts.
R4  overflow assertions in grammar actions (record-shorthand counters on attacker-chosen field ids) are discharged by a
    small interval analysis of the action's MIR.
R5  slices / nth() on sub-lexer lexemes are justified by the matching regex (minimum length, ASCII prefix / suffix).
"""
import re

from facts import AnchorMissing, callee, unblock, walk
import c13_util as U

TITLE = ("C13: panic-site inventory of the parser closure with committed reasons; fallible text conversions propagated; "
         "token regex language (through the callback model) included in every unwrapping consumer's precondition; "
         "id arithmetic in grammar actions discharged by intervals; sub-lexer slices justified by the regex.")

# generated code that is the trusted runtime: logos state machines (their `callback` shims hold repository closures and
# stay in), lalrpop parse tables / reducers
GENERATED = r"as logos::Logos<'s>>::lex(?!::goto\w+::callback$)|grammar::__parse__|::__action$"
ACTION = re.compile(r"^candid_parser::grammar::__action\d+$")

ENTRY_PATTERNS = (
    (r"^<candid_parser::syntax::\w+ as core::str::traits::FromStr>::from_str$", 4),
    (r"^<candid_parser::test::Test as core::str::traits::FromStr>::from_str$", 1),
    (r"^candid_parser::parse_idl_(args|value)$", 2),
    (r"^candid_parser::typing::(check_prog|check_init_args|ast_to_type)$", 3),
    (r"^<candid_parser::token::Tokenizer<'_> as core::iter::traits::iterator::Iterator>::next$", 1),
    (r"^candid_parser::token::parse_number$", 1),
)

# ----------------------------------------------------------------------------------------------------------------------
# R1: committed table  site key -> why no input string reaches the panic.  A site that is not listed is a violation; an
# entry whose site is gone is ignored.  Key = "<function or action description> | <construct>#<ordinal among equal
# constructs of that function, in source order>".
T_NEXT = "<candid_parser::token::Tokenizer<'_> as core::iter::traits::iterator::Iterator>::next"
REASONS = {
    # ---- lexer
    T_NEXT + " | overflow:Sub(i32)#0":
        "`nesting -= 1` in the block-comment loop: nesting starts at 1 and the loop breaks as soon as it reaches 0, so it is >= 1 here",
    T_NEXT + " | overflow:Add(i32)#0":
        "`nesting += 1` per `/*`: overflowing i32 needs 2^31 nested openers, i.e. an input of more than 4 GiB",
    T_NEXT + " | RefCell::borrow_mut(&RefCell<HashMap<usize, Vec<String>>>)#0":
        "trivia map: every borrow (here and in the DocComment action) is a temporary that ends within its statement; lexer and actions never run nested",
    "candid_parser::token::Tokenizer::<'input>::count_newlines_between | index(&str)[Range]#0":
        "guarded by `start < end && end <= source.len()`; both offsets are logos span ends/starts, hence char boundaries",
    "candid_parser::token::Tokenizer::<'input>::find_line_end | index(&str)[RangeFrom]#0":
        "pos is the end of the current token span: <= source.len() and a char boundary",
    "candid_parser::token::Tokenizer::<'input>::find_line_end | overflow:Add(usize)#0":
        "pos + offset is an index into source, bounded by source.len() <= isize::MAX",
    # ---- grammar actions
    "action[calls token::error2+utils::check_unique -> Result<Vec<Binding>>] | unwrap(PartialOrd::partial_cmp)#0":
        "String::partial_cmp is total (always Some)",
    "action[ -> Option<Vec<String>>] | RefCell::borrow(&RefCell<HashMap<usize, Vec<String>>>)#0":
        "trivia map: the only mutable borrow is the statement-scoped one in Tokenizer::next, never live while an action runs",
    # ---- type checker
    "candid_parser::typing::check_type | index(&Vec<FuncMode>)[lit]#0":
        "`func.modes[0]` is the right operand of `func.modes.len() == 1 && …` (short-circuit)",
    # ---- candid: environment and annotation
    "<candid::utils::DepthGuard as core::ops::drop::Drop>::drop | expect(num::checked_sub)#0":
        "every DepthGuard is created by RecursionDepth::guard after incrementing the same counter, so it is >= 1 on drop",
    "candid::types::internal::find_type | RefCell::borrow(&RefCell<BTreeMap<TypeId, Type>>)#0":
        "thread-local ENV: the mutable borrow in env_add is statement-scoped and does not call back into find_type",
    "candid::types::type_env::TypeEnv::trace_type_with_depth | unwrap(internal::find_type)#0":
        "Knot arm: Knot ids are created only by CandidType::ty() together with their ENV entry; types built by the text parser never contain Knot",
    "candid::types::value::IDLValue::annotate_type_with_depth | unwrap(internal::find_type)#0":
        "Knot arm: as above, parser-built types contain no Knot",
    "candid::types::value::IDLValue::annotate_type_with_depth | unwrap(TypeEnv::trace_type_with_depth)#0":
        "trace_type fails only on an unbound Var (the annotation type comes from ast_to_type / a checked env, where check_type ran find_type(id)?) or when "
        "fewer than 32 KiB of stack remain (nesting <= 128 stays far away from that)",
    "<candid::types::internal::TypeId as core::fmt::Display>::fmt | RefCell::borrow_mut(&RefCell<TypeName>)#0":
        "thread-local NAME is borrowed only for the duration of TypeName::get, which formats nothing that re-enters Display for TypeId",
    "candid::types::internal::TypeName::get | unwrap(Iterator::next)#0": "str::split always yields at least one item",
    "candid::types::internal::TypeName::get | unwrap(Iterator::next)#1": "str::rsplit always yields at least one item",
    "candid::types::internal::TypeName::get | overflow:Add(usize)#0": "counts distinct Rust type ids with the same short name; bounded by the number of types in the binary",
    # ---- candid: printers used by error messages
    "candid::pretty::candid::pp_class | unreachable!#0":
        "Class(_, t) is built only by check_actor from an `Actor` production (ServT or VarT), so t is Service or Var",
    "candid::pretty::candid::pp_service | unreachable!#0":
        "method types come from the `MethTyp` productions (FuncT or VarT only), check_type maps them to Func / Var",
    "candid::pretty::candid::value::number_to_string | unreachable!#0":
        "called from the Debug impl for the Float32 / Float64 arms only (and from the JS binding for number variants)",
    "candid::pretty::candid::value::pp_char | unwrap(char::from_u32)#0": "dominated by the range test 0x20..=0x7e: always a valid scalar value",
    "candid::pretty::candid::value::pp_field | overflow:Sub(usize)#0":
        "pp_field / pp_fields are called from pp_value only after its `if depth == 0 { return }`",
    "candid::pretty::candid::value::pp_value | overflow:Sub(usize)#0": "`depth - 1` after `if depth == 0 { return }`",
    "candid::pretty::candid::value::pp_value | overflow:Sub(usize)#1": "`depth - 1` after `if depth == 0 { return }`",
    "candid::pretty::candid::value::pp_value | overflow:Sub(usize)#2": "`depth - 1` after `if depth == 0 { return }`",
    "candid::pretty::candid::value::pp_value | overflow:Sub(usize)#3": "`depth - 1` after `if depth == 0 { return }`",
    "candid::utils::pp_num_str | call(slice::rchunks)#0": "chunk size is the non-zero literal 3",
    "candid::utils::pp_num_str | unwrap(slice::first)#0":
        "every caller passes to_str_radix(10) / an integer's to_string(): at least one character, hence at least one chunk",
    "candid::utils::pp_num_str | index(&Vec<Cow<str>>)[RangeFrom]#0": "only evaluated when groups.first() exists, so 1 <= groups.len()",
    # ---- ic_principal
    "<ic_principal::Principal as core::fmt::Display>::fmt | index(&str)[RangeTo]#0": "inside `while s.len() > 5`; s is ASCII base32",
    "<ic_principal::Principal as core::fmt::Display>::fmt | index(&str)[RangeFrom]#0": "inside `while s.len() > 5`; s is ASCII base32",
    "ic_principal::Principal::as_slice | call(slice::split_at)#0": "len <= 29 = bytes.len() is the type's invariant (from_slice_core is the only constructor)",
    "ic_principal::Principal::from_slice_core | index([u8; 29])[expr]#0": "i < len <= MAX_LENGTH_IN_BYTES (match arm `len @ 0..=MAX`)",
    "ic_principal::Principal::from_slice_core | index([u8])[expr]#0": "i < len = slice.len()",
    "ic_principal::Principal::from_slice_core | overflow:Add(usize)#0": "i < len <= 29",
    "ic_principal::Principal::from_text | index(&Vec<u8>)[RangeTo]#0": "after `if bytes.len() < CRC_LENGTH_IN_BYTES { return Err }`",
    "ic_principal::Principal::from_text | index(&Vec<u8>)[RangeFrom]#0": "after `if bytes.len() < CRC_LENGTH_IN_BYTES { return Err }`",
    "ic_principal::Principal::from_text | unwrap(Principal::try_from_slice)#0": "after `if data_bytes.len() > MAX_LENGTH_IN_BYTES { return Err }`",
}
SITE_FLOOR = 40          # sites found in the closure (decided by table or by R2–R5), confirmed by hand: 51
CLOSURE_FLOOR = 500      # functions in the closure (420 grammar actions + ~160 others)

# R3: which token variants carry numerals of which radix. The LR tables that link a terminal to the production that
# consumes it are not in the fact files (generated parser code is filtered out), so the pairing token <-> consumer is by
# radix: a radix-r conversion of a bare terminal payload in a grammar action is fed by the radix-r numeral token.
NUMERAL_TOKENS = {"Hex": 16, "Decimal": 10}
OTHER_NUMBER_TOKENS = {"Float"}

FALLIBLE = re.compile(
    r"^core::str::<impl str>::parse$|^core::num::<impl [ui]\w+>::from_str_radix$"
    r"|^num_bigint::.*::(parse_bytes|from_str_radix)$|^num_traits::Num::from_str_radix$"
    r"|^core::char::(methods::<impl char>::)?(from_u32|from_digit|to_digit)$|^core::char::convert::from_u32$"
    r"|^ic_principal::Principal::from_text$|^core::str::converts::from_utf8$|^alloc::string::String::from_utf8$"
    r"|FromStr>?::from_str$|TryFrom<?.*::try_from$|TryInto<?.*::try_into$")
BIG_RADIX = re.compile(r"^num_bigint::.*::(parse_bytes|from_str_radix)$")


def digits_regex(radix):
    if radix <= 10:
        return "[0-%d]+" % (radix - 1)
    hi = chr(ord("a") + radix - 11)
    return "[0-9a-%sA-%s]+" % (hi, hi.upper())


class Ctx:
    """everything the rules share, computed once"""

    def __init__(self, chk, facts):
        self.chk = chk
        self.facts = facts
        self.cp = facts.crate("candid_parser")
        self._closure = None
        self._trees = {}
        self._lex = None
        self._conv = None
        self._sub = None

    # ---- closure
    def closure(self):
        if self._closure is None:
            cp = self.cp
            entries = [k for k in cp.bodies if ACTION.match(k)]
            if len(entries) < 100:
                raise AnchorMissing(f"only {len(entries)} grammar actions (`candid_parser::grammar::__actionN`) in the facts")
            for pat, n in ENTRY_PATTERNS:
                ms = [k for k in cp.bodies if re.search(pat, k)]
                if len(ms) < n:
                    raise AnchorMissing(f"parser entry point(s) /{pat}/: {len(ms)} found, {n} expected")
                entries += ms
            # every hand-written function of token.rs (callbacks are called from generated code only)
            entries += [k for k, b in cp.bodies.items() if re.match(r"<?candid_parser::token::", k) and not re.search(GENERATED, k)]
            self._closure = U.Closure(self.facts, entries, GENERATED)
        return self._closure

    def tree(self, key):
        if key not in self._trees:
            self._trees[key] = U.Tree(self.closure().hir[key])
        return self._trees[key]

    def name(self, key):
        if ACTION.match(key):
            return U.action_name(self.closure().hir[key], self.closure().bodies.get(key))
        return re.sub(r"::goto\w+::callback$", "::callback", key)     # logos numbers its states

    def where(self, key, ln):
        f = self.closure().hir[key]["span"]["file"]
        return f"{f.rsplit('/out/', 1)[-1] if '/out/' in f else f}:{ln}"

    # ---- lexer tables
    def lexer(self):
        """{enum: {variant: {'rules':[{'kind','pattern','callback','rx'}], 'payload': type or None}}}"""
        if self._lex is None:
            out = {}
            for enum in ("Token", "Text", "Comment"):
                a = self.cp.attr_item(r"token::%s$" % enum)
                item = self.cp.item("enum", r"token::%s$" % enum)
                payload = {v["name"]: (v["fields"][0]["ty"] if v.get("fields") else None) for v in item["variants"]}
                tab = {}
                for v in a["variants"]:
                    rules = []
                    for s in v["attrs"]:
                        p = U.parse_attr(s)
                        if p is None:
                            continue
                        if p["kind"] == "regex":
                            rx = U.Rx(p["pattern"])
                        else:
                            rx = U.Rx("".join("\\" + c if not c.isalnum() and c != "_" else c for c in p["pattern"]))
                        rules.append({"kind": p["kind"], "pattern": p["pattern"], "callback": U.attr_callback(p["rest"]), "rx": rx})
                    tab[v["name"]] = {"rules": rules, "payload": payload.get(v["name"])}
                out[enum] = tab
            self._lex = out
        return self._lex

    # ---- R2/R3 recogniser: fallible conversions in the text-facing layer and what happens to their result
    def conversions(self):
        if self._conv is None:
            out = []
            cl = self.closure()
            for key in sorted(cl.fns):
                if U.crate_of(key) != "candid_parser":
                    continue
                tree = self.tree(key)
                for n in walk(tree.h["body"]):
                    if n.get("k") not in ("call", "mcall"):
                        continue
                    c = callee(n) or ""
                    if not FALLIBLE.search(c):
                        continue
                    kind, at = U.consumer(tree, n)
                    ob = self._obligation(key, tree, n, c) if kind == "unwrap" else None
                    out.append({"fn": key, "node": n, "callee": c, "consumer": kind, "at": at, "obligation": ob})
            self._conv = out
        return self._conv

    def _obligation(self, key, tree, n, c):
        """language obligation that would justify unwrapping this conversion, or None"""
        if not (BIG_RADIX.search(c) and ACTION.match(key)):
            return None
        args = n["args"] if n["k"] == "call" else [n["recv"]] + n["args"]
        lits = [unblock(a)["v"]["int"] for a in args if isinstance(unblock(a), dict) and unblock(a).get("k") == "lit" and "int" in unblock(a)["v"]]
        if len(lits) != 1 or not (2 <= lits[0] <= 36):
            return None
        src = U.strip_to_local(args[0])
        if src is None or src not in tree.param_names:
            return None
        pty = None
        for p in tree.h["params"]:
            for x in walk(p):
                if x.get("k") == "bind" and x["n"] == src:
                    pty = x.get("ty")
        if pty not in ("alloc::string::String", "(alloc::string::String, core::ops::range::Range<usize>)"):
            return None
        return {"radix": lits[0], "consumer": f"{U.compact(c)}(radix {lits[0]}).unwrap", "pre": digits_regex(lits[0])}

    # ---- R5 recogniser: slices / nth on sub-lexer lexemes
    def sublexer_sites(self):
        if self._sub is None:
            out = []
            cl = self.closure()
            for key in sorted(cl.fns):
                if not re.match(r"<?candid_parser::token::", key):
                    continue
                tree = self.tree(key)
                for m in [x for x in walk(tree.h["body"]) if x.get("k") == "match"]:
                    sc = unblock(m["scrut"])
                    if not (isinstance(sc, dict) and sc.get("k") == "mcall" and sc["m"] == "next"):
                        continue
                    mt = re.search(r"logos::lexer::Lexer<'_, candid_parser::token::(\w+)>", sc.get("recv_ty") or "")
                    if not mt:
                        continue
                    enum = mt.group(1)
                    for arm in m["arms"]:
                        vs = [p.rsplit("::", 1)[-1] for p in U_pat_variants(arm["pat"]) if p.startswith(f"candid_parser::token::{enum}::")]
                        if not vs:
                            continue
                        for site in self._arm_sites(enum, arm["body"]):
                            site.update({"fn": key, "enum": enum, "variants": vs})
                            out.append(site)
            self._sub = out
        return self._sub

    @staticmethod
    def _arm_sites(enum, body):
        lex_ty = re.compile(r"logos::lexer::Lexer<'_, candid_parser::token::%s>" % enum)
        names = set()

        def is_lexeme(e):
            e = unblock(e)
            while isinstance(e, dict) and (e.get("k") == "ref" or (e.get("k") == "un" and e.get("op") == "Deref")):
                e = unblock(e["e"] if e.get("k") == "ref" else e["a"])
            if not isinstance(e, dict):
                return False
            if e.get("k") == "mcall" and e["m"] == "slice" and lex_ty.search(e.get("recv_ty") or ""):
                return True
            return e.get("k") == "path" and (e.get("res") or {}).get("kind") == "Local" and e["res"]["path"] in names

        for n in walk(body):
            if n.get("k") == "slet" and (n.get("pat") or {}).get("k") == "bind" and n.get("init") is not None and is_lexeme(n["init"]):
                names.add(n["pat"]["n"])

        def bound(e):
            """('lit', n) | ('len-', k, [nodes]) | None"""
            e = unblock(e)
            if e.get("k") == "lit" and "int" in e["v"]:
                return ("lit", e["v"]["int"], [])
            if e.get("k") == "mcall" and e["m"] == "len" and is_lexeme(e["recv"]):
                return ("len-", 0, [])
            if e.get("k") == "bin" and e["op"] == "Sub":
                a, b = unblock(e["a"]), unblock(e["b"])
                if a.get("k") == "mcall" and a["m"] == "len" and is_lexeme(a["recv"]) and b.get("k") == "lit" and "int" in b["v"]:
                    return ("len-", b["v"]["int"], [e])
            return None

        out = []
        for n in walk(body):
            if n.get("k") == "index" and is_lexeme(n["a"]):
                ix = unblock(n["b"])
                if ix.get("k") != "struct":
                    continue
                form = ((ix.get("res") or {}).get("path") or "").rsplit("::", 1)[-1]
                fl = {f[0]: bound(f[1]) for f in ix["fields"]}
                if any(v is None for v in fl.values()):
                    continue
                lo, hi = fl.get("start"), fl.get("end")
                claimed = [n] + [x for v in fl.values() for x in v[2]]
                need = {"min": 0, "prefix": 0, "suffix": 0}
                if form == "Range" and lo and hi and lo[0] == "lit":
                    if hi[0] == "len-":
                        need = {"min": lo[1] + hi[1], "prefix": lo[1], "suffix": hi[1]}
                        text = f"[{lo[1]}..len-{hi[1]}]"
                    elif hi[1] >= lo[1]:
                        need = {"min": hi[1], "prefix": hi[1], "suffix": 0}
                        text = f"[{lo[1]}..{hi[1]}]"
                    else:
                        continue
                elif form == "RangeFrom" and lo and lo[0] == "lit":
                    need = {"min": lo[1], "prefix": lo[1], "suffix": 0}
                    text = f"[{lo[1]}..]"
                elif form == "RangeTo" and hi:
                    if hi[0] == "len-":
                        need = {"min": hi[1], "prefix": 0, "suffix": hi[1]}
                        text = f"[..len-{hi[1]}]"
                    else:
                        need = {"min": hi[1], "prefix": hi[1], "suffix": 0}
                        text = f"[..{hi[1]}]"
                else:
                    continue
                out.append({"what": "slice", "text": text, "need": need, "nodes": claimed, "ln": n.get("ln")})
            elif n.get("k") == "mcall" and n["m"] in ("unwrap", "expect") and U.is_option_result_method(n):
                r = unblock(n["recv"])
                if r.get("k") == "mcall" and r["m"] in ("nth", "next") and (r.get("callee") or "").endswith(("Iterator::nth", "Iterator::next")):
                    ch = unblock(r["recv"])
                    if ch.get("k") == "mcall" and ch["m"] == "chars" and is_lexeme(ch["recv"]):
                        k = 0
                        if r["m"] == "nth":
                            a = unblock(r["args"][0])
                            if not (a.get("k") == "lit" and "int" in a["v"]):
                                continue
                            k = a["v"]["int"]
                        out.append({"what": "nth", "text": f"chars().nth({k})", "need": {"min": k + 1, "prefix": 0, "suffix": 0},
                                    "nodes": [n], "ln": n.get("ln")})
        return out

    def claims(self):
        """id(HIR node) -> rule that decides it (so that R1 does not ask for a table entry)"""
        out = {}
        for c in self.conversions():
            if c["consumer"] == "unwrap":
                out[id(c["at"])] = "C13.R3" if c["obligation"] else "C13.R2"
        for s in self.sublexer_sites():
            for n in s["nodes"]:
                out[id(n)] = "C13.R5"
        return out


def U_pat_variants(p):
    from facts import pat_variants
    return pat_variants(p)


class Keys:
    """the known-findings file separates key and description with `::`, so keys must not contain it"""

    def __init__(self, chk):
        self._c = chk

    @staticmethod
    def k(key):
        return key.replace("::", ".")

    def ok(self, key, detail=None, nontrivial=True):
        return self._c.ok(self.k(key), detail, nontrivial)

    def bad(self, key, msg, where=None, detail=None):
        return self._c.bad(self.k(key), msg, where, detail)

    def expect(self, cond, key, msg, where=None, detail=None, ok_detail=None):
        return self._c.expect(cond, self.k(key), msg, where, detail, ok_detail)

    def __getattr__(self, name):
        return getattr(self._c, name)


RECURSION_REASONS = (
    (r"^candid::pretty::utils::is_empty$", "walks an RcDoc built by the printers: as deep as the printed type / value, i.e. the nesting of the input"),
    (r"^candid::pretty::candid::(pp_\w+)$", "structural recursion over a Type: one level per type constructor, bounded by the nesting of the input"),
    (r"^candid::pretty::candid::value::(pp_\w+)$|IDLValue as core::fmt::Debug", "structural recursion over a value: bounded by the nesting of the input (and by the printer's depth budget)"),
    (r"^candid::types::type_env::TypeEnv::(as_func|as_service|trace_type|rec_find_type)\w*$", "alias chasing under a RecursionDepth guard"),
    (r"^candid::types::value::IDLValue::annotate_type_with_depth$", "structural recursion over value and type under a RecursionDepth guard (first statement of the function)"),
    (r"^candid_parser::typing::(check_type|check_fields|check_meths|check_args)$", "structural recursion over the parsed IDLType tree: one level per type constructor of the input"),
    (r"^candid_parser::typing::check_cycle::has_cycle$", "follows alias chains; stops at the first name already in the visited set, so at most one frame per definition name *on one chain*"),
    (r"^candid_parser::typing::(validate_type|validate_func)$", "structural recursion over a checked Type plus one visit per definition name (seen map)"),
    (r"^candid_parser::syntax::pretty::(pp_\w+)$", "structural recursion over the syntax tree: bounded by the nesting of the input"),
)


def U_sccs(edges):
    """strongly connected components with a cycle (size > 1 or a self edge), iterative Tarjan"""
    index, low, on, stack, out = {}, {}, set(), [], []
    counter = [0]
    for root in sorted(edges):
        if root in index:
            continue
        work = [(root, iter(sorted(edges.get(root, ()))))]
        index[root] = low[root] = counter[0]
        counter[0] += 1
        stack.append(root)
        on.add(root)
        while work:
            v, it = work[-1]
            adv = False
            for w in it:
                if w not in index:
                    index[w] = low[w] = counter[0]
                    counter[0] += 1
                    stack.append(w)
                    on.add(w)
                    work.append((w, iter(sorted(edges.get(w, ())))))
                    adv = True
                    break
                elif w in on:
                    low[v] = min(low[v], index[w])
            if adv:
                continue
            work.pop()
            if work:
                low[work[-1][0]] = min(low[work[-1][0]], low[v])
            if low[v] == index[v]:
                comp = []
                while True:
                    w = stack.pop()
                    on.discard(w)
                    comp.append(w)
                    if w == v:
                        break
                if len(comp) > 1 or v in edges.get(v, ()):
                    out.append(sorted(comp))
    return out


def run(chk, facts, tier, only=None):
    chk = Keys(chk)
    ctx = Ctx(chk, facts)

    # ------------------------------------------------------------------------------------------------ R1
    def r1():
        cl = ctx.closure()
        chk.floor("functions reachable from the parser entry points", len(cl.fns), CLOSURE_FLOOR)
        claims = ctx.claims()
        total = 0
        for key in sorted(cl.fns):
            if key not in cl.hir:
                chk.bad(f"no-hir:{key}", f"{key} is in the parser closure but has no HIR in the facts")
                continue
            chk.analysed(key)
            tree = ctx.tree(key)
            ss = U.sites(tree)
            n_mir = len(U.mir_arith_asserts(cl.bodies[key]))
            n_hir = sum(1 for s in ss if s["kind"] == "arith")
            if n_mir > 2 * n_hir:
                chk.bad(f"arith-mismatch:{ctx.name(key)}",
                        f"{key}: MIR has {n_mir} overflow/division assertions but only {n_hir} arithmetic expressions were found in the HIR "
                        f"(the site enumeration is incomplete for this function)")
            if not ss:
                continue
            name = ctx.name(key)
            for s in ss:
                total += 1
                k = f"{name} | {s['desc']}#{s['ord']}"
                where = ctx.where(key, s["ln"])
                if s["kind"] == "arith" and ACTION.match(key):
                    chk.ok(k, "arithmetic in a grammar action: decided by C13.R4", nontrivial=False)
                    continue
                by = claims.get(id(s["node"]))
                if by:
                    chk.ok(k, f"decided by {by}", nontrivial=False)
                    continue
                why = REASONS.get(k)
                chk.expect(why is not None, k,
                           f"panic site without a committed reason: `{s['desc']}` in {key} is reachable from the text parsers "
                           f"(lexer / grammar action / type check / error-message printing) and is neither in the reasons table of c13.py nor decided by R2–R5",
                           where=where, ok_detail=why)
        chk.floor("panic sites in the parser closure", total, SITE_FLOOR)
        chk.assume("std functions outside the recognised panicking set (unwrap/expect, panic macros, indexing, RefCell borrows, "
                   "split_at/remove/insert/drain/rchunks…, integer pow/ilog/abs, radix arguments) are total; "
                   "logos / lalrpop / pretty / num-bigint / data-encoding internals are trusted")

    # ------------------------------------------------------------------------------------------------ R2
    def r2():
        convs = ctx.conversions()
        chk.floor("fallible text conversions in lexer, grammar actions and syntax/typing", len(convs), 10)
        cnt = {}
        for c in convs:
            chk.analysed(c["fn"])
            base = f"conv:{ctx.name(c['fn'])}:{U.compact(c['callee'])}"
            i = cnt.get(base, 0)
            cnt[base] = i + 1
            k = f"{base}#{i}"
            where = ctx.where(c["fn"], c["node"].get("ln"))
            if c["consumer"] != "unwrap":
                chk.ok(k, f"result goes to `{c['consumer']}`")
            elif c["obligation"]:
                chk.ok(k, f"unwrapped; precondition /{c['obligation']['pre']}/ is the language obligation of C13.R3")
            else:
                chk.bad(k, f"{c['fn']}: the result of the fallible conversion {c['callee']} on text that comes from the input is unwrapped "
                           f"(`{c['at'].get('m', 'unwrap')}`); no token-language argument can justify it (range-limited or unmodelled conversion) — "
                           f"propagate the error with `?` / map_err", where=where)

    # ------------------------------------------------------------------------------------------------ R3
    def r3():
        lex = ctx.lexer()
        tok = lex["Token"]
        nrules = sum(len(v["rules"]) for e in lex.values() for v in e.values())
        chk.floor("lexer rules (#[token] / #[regex]) parsed and compiled", nrules, 44)
        # numeral tokens and their callback models
        models = {}
        for vname, v in tok.items():
            cbs = {r["callback"] for r in v["rules"] if r["callback"] not in (None, "closure")}
            for cb in cbs:
                if vname not in NUMERAL_TOKENS and vname not in OTHER_NUMBER_TOKENS:
                    raise AnchorMissing(f"Token::{vname} uses the named callback `{cb}` but is not in the numeral-token table of c13.py")
                h = ctx.cp.fn(r"^candid_parser::token::%s$" % re.escape(cb.rsplit("::", 1)[-1]))
                try:
                    models[vname] = (cb, U.callback_model(h))
                except AnchorMissing:
                    models[vname] = (cb, U.EvalModel(h, ctx.cp))        # another spelling of the callback: evaluate it on sample lexemes
                chk.analysed(h["key"])
        for vname in NUMERAL_TOKENS:
            if vname not in tok or vname not in models or tok[vname]["payload"] != "alloc::string::String":
                raise AnchorMissing(f"numeral token Token::{vname}(String) with a named callback not found")
        # consumers
        convs = [c for c in ctx.conversions() if ACTION.match(c["fn"])]
        numeric = [c for c in convs if re.search(r"from_str_radix$|parse_bytes$|<impl str>::parse$", c["callee"])]
        chk.floor("numeric conversions of terminal payloads in grammar actions", len(numeric), 3)
        nob = 0
        for c in convs:
            ob = c["obligation"]
            if not ob:
                continue
            srcs = [v for v, r in NUMERAL_TOKENS.items() if r == ob["radix"]]
            if not srcs:
                raise AnchorMissing(f"no numeral token of radix {ob['radix']} for the consumer {ob['consumer']}")
            target = U.Rx(ob["pre"])
            for vname in srcs:
                cb, model = models[vname]
                for rule in tok[vname]["rules"]:
                    nob += 1
                    w = U.sample_image_not_included(rule["rx"], model, target) if isinstance(model, U.EvalModel) \
                        else U.image_not_included(rule["rx"], model, target)
                    k = f"lang:Token::{vname}->{ob['consumer']}"
                    if w is None:
                        chk.ok(k, f"/{rule['pattern']}/ through {cb} ({model.describe()}) ⊆ /{ob['pre']}/")
                    else:
                        outw = model.apply(w)
                        assert rule["rx"].accepts(w) and not target.accepts(outw), "witness check failed"
                        if isinstance(model, U.EvalModel):
                            chk.assume("C13.R3: a callback that is not of the delete/strip-prefix shape is evaluated on lexemes of at most 6 representative characters")
                        chk.bad(k, f"Token::{vname} matches /{rule['pattern']}/, e.g. the lexeme `{w}`; its callback {cb} ({model.describe()}) "
                                   f"turns that into `{outw}`, which is not in /{ob['pre']}/ — the grammar action {ctx.name(c['fn'])} "
                                   f"feeds it to {ob['consumer']}() and panics (a `u32::from_str_radix` consumer of the same token only reports an error)",
                                where=ctx.where(c["fn"], c["node"].get("ln")))
        chk.assume("terminal→production linkage is not in the fact files; radix-r conversions of bare terminal payloads are paired with the "
                   "radix-r numeral token (Hex=16, Decimal=10)")
        chk.assume("num-bigint parse_bytes/from_str_radix(radix r) accepts at least every non-empty string of radix-r digits")
        if nob == 0:
            chk.ok("lang:no-unwrapping-consumer", "no grammar action unwraps a radix conversion of a terminal payload", nontrivial=False)

    # ------------------------------------------------------------------------------------------------ R4
    def r4():
        cp = ctx.cp
        acts = [b for k, b in cp.bodies.items() if ACTION.match(k)]
        chk.floor("grammar action bodies analysed", len(acts), 100)
        nar = 0
        n_safe_calls = 0
        seen = {}
        records = 0
        for b in sorted(acts, key=lambda x: x.key):
            h = cp.hir.get(b.key)
            name = U.action_name(h, b) if h else b.key
            is_record = bool(h) and any(x in name for x in ("IDLValue::Record", "IDLType::RecordT"))
            records += 1 if is_record else 0
            for cb in b.with_closures():
                if is_record:
                    for _bi, _t, cal in cb.call_sites():
                        if cal and re.search(r"core::num::<impl [ui]\w+>::(checked|wrapping|saturating|overflowing)_(add|sub|mul)$", cal):
                            n_safe_calls += 1
                asserts = [(bi, blk["t"]) for bi, blk in enumerate(cb.blocks)
                           if blk["t"]["k"] == "assert" and not cb.is_cleanup(bi)
                           and (str(blk["t"].get("msg")).startswith("overflow:") or str(blk["t"].get("msg")) in ("div0", "rem0"))]
                if not asserts:
                    continue
                chk.analysed(cb.key)
                iv = U.Intervals(cb)
                for bi, t in asserts:
                    nar += 1
                    r = iv.results.get(bi) or {"ok": False, "op": str(t.get("msg")), "ty": None, "operands": [], "origin": ["unreached"]}
                    org = next((o for o in r["origin"] if o != "const"), "const")
                    org_k = U.compact(org[5:]) if org.startswith("call ") else ("captured counter" if org.startswith("load through") else org)
                    base = f"{name}|{r['op']}({r['ty']})|{org_k}"
                    i = seen.get(base, 0)
                    seen[base] = i + 1
                    k = base if i == 0 else f"{base}#{i}"
                    ops = ", ".join(f"[{o[0]}, {o[1]}]" if o else "unknown" for o in r["operands"])
                    file = b.span["file"]
                    chk.expect(r["ok"], k,
                               f"{name}: the {r['op']} on {r['ty']} can overflow: operands range over {ops} (operand comes from {org}); field ids are "
                               f"chosen by the input (Label::get_id() ∈ [0, 2^32-1]) and the assertion is not dominated by a range test — panics in debug "
                               f"builds, wraps in release builds; use checked arithmetic or a wider counter",
                               where=f"{file.rsplit('/out/', 1)[-1]}:{t.get('ln')}",
                               ok_detail=f"operands {ops}: cannot overflow")
        if records < 2:
            raise AnchorMissing("grammar actions building IDLValue::Record / IDLType::RecordT not found")
        chk.floor("id arithmetic (overflow-checked or checked_/wrapping_/saturating_ calls) in the record-shorthand actions", nar + n_safe_calls, 2)
        chk.assume(f"no loop runs {U.ITER_BOUND} (2^56) or more iterations (input length bound) — used only to widen counters of 64-bit width")

    # ------------------------------------------------------------------------------------------------ R5
    def r5():
        lex = ctx.lexer()
        sites = ctx.sublexer_sites()
        chk.floor("slices / nth() on sub-lexer lexemes", len(sites), 3)
        for s in sites:
            chk.analysed(s["fn"])
            for vname in s["variants"]:
                ent = lex[s["enum"]].get(vname)
                k = f"{s['what']}:{s['enum']}::{vname}:{s['text']}"
                if not ent or not ent["rules"]:
                    chk.bad(k, f"{s['fn']}: arm for {s['enum']}::{vname} slices the lexeme but the variant has no #[regex]/#[token] rule")
                    continue
                need = s["need"]
                for rule in ent["rules"]:
                    d = rule["rx"].dfa
                    ml = d.min_len()
                    problems = []
                    if ml is None or ml < need["min"]:
                        problems.append(f"shortest lexeme has {ml} character(s), {need['min']} needed")
                    else:
                        for i in range(need["prefix"]):
                            if U.NONASCII in d.symbols_at(i):
                                problems.append(f"character {i} of a lexeme can be non-ASCII, so byte offset {need['prefix']} need not be a char boundary")
                                break
                        for j in range(1, need["suffix"] + 1):
                            if U.NONASCII in d.symbols_from_end(j):
                                problems.append(f"character {j} from the end can be non-ASCII, so byte offset len-{need['suffix']} need not be a char boundary")
                                break
                    chk.expect(not problems, k,
                               f"{s['fn']}: `{s['text']}` on the lexeme of {s['enum']}::{vname} (/{rule['pattern']}/) can panic: " + "; ".join(problems),
                               where=ctx.where(s["fn"], s["ln"]),
                               ok_detail=f"/{rule['pattern']}/: min length {ml} >= {need['min']}, first {need['prefix']} / last {need['suffix']} characters ASCII")

    # ------------------------------------------------------------------------------------------------ R6
    def r6():
        """stack use: every recursive component of the parser closure (direct MIR call edges, closures folded into their parents) needs a
        reviewed reason why its depth is bounded by the nesting depth of the input, not by its length"""
        cl = ctx.closure()
        edges = {}
        for k in cl.fns:
            out = set()
            for cb in cl.bodies[k].with_closures():
                for _bi, _t, cal in cb.call_sites():
                    if cal in cl.bodies:
                        tk = cl._top(cal)
                        if tk in cl.fns:
                            out.add(tk)
            edges[k] = out
        comps = U_sccs(edges)
        chk.floor("recursive components in the parser closure", len(comps), 4)
        for comp in comps:
            names = sorted(x.rsplit("::", 1)[-1] for x in comp)
            why = next((r for rx, r in RECURSION_REASONS if all(re.search(rx, x) for x in comp)), None)
            chk.expect(why is not None, "recursion:" + "+".join(names),
                       f"the functions {sorted(comp)} call each other recursively on the path from the text parsers and no reviewed bound on "
                       f"the recursion depth is recorded: if the depth follows the *length* of the input (one frame per token, comment, list "
                       f"element) a long input overflows the stack, which aborts the process in debug and release builds alike",
                       where=cl.bodies[sorted(comp)[0]].span["file"], ok_detail=why)

    for rid, desc, fn in (("C13.R6", "recursion reachable from the text parsers is bounded by the nesting depth of the input", r6),
                          ("C13.R1", "every panic site reachable from the text parsers has a committed reason or is decided by R2–R5", r1),
                          ("C13.R2", "fallible conversions of input text are propagated, never unwrapped without a language argument", r2),
                          ("C13.R3", "token regex language, through the callback model, is included in each unwrapping consumer's precondition", r3),
                          ("C13.R4", "overflow assertions on field-id arithmetic in grammar actions are discharged by interval analysis", r4),
                          ("C13.R5", "slices and nth() on sub-lexer lexemes are justified by the matching regex", r5)):
        if only and only != rid:
            continue
        chk.run_rule(rid, desc, fn)
    if only is None:
        import c14
        # "returns a result": the walks of the type checker over named types stop (visited sets), so check_prog does not recurse forever
        chk._c.include(c14, "C14.R2", "C13.R7", facts) if hasattr(chk, "_c") else chk.include(c14, "C14.R2", "C13.R7", facts)
        # the printers reached from the checker's error messages have `unreachable!()` arms for method types that are neither a function
        # nor a name; the grammar keeps everything else out of method position
        chk.include(c14, "C14.R5", "C13.R8", facts)
