"""Private helpers of c13.py / c14.py (stdlib only):

* `parse_attr`      — the `#[token("…")]` / `#[regex(…, callback)]` derive-helper strings of the logos enums
* `Rx`              — a small regular-language kit for the regex subset used by the lexer tables
                      (parser -> NFA -> DFA over ASCII + one representative for every non-ASCII char)
* `callback_model`  — `parse_number`-style callbacks matched structurally against their HIR and turned into a
                      string transducer (delete chars / strip N chars iff the lexeme starts with a prefix)
* `image_not_included` — shortest lexeme whose callback output is outside a consumer's precondition language
* `Closure`         — call-graph closure over the MIR of the workspace crates (with the few generic-mediated edges)
* `sites`           — HIR panic-site enumeration with keys that contain no line numbers
* `consumer`        — where the value of an expression goes (`?`, match, unwrap …)
* `Intervals`       — a self-contained forward interval analysis of one MIR body (overflow assertions only)
"""
import re
from collections import defaultdict, deque

from facts import AnchorMissing, callee, op_const, op_int, op_place, short, term_callee, unblock, walk

# =========================================================================== attribute strings
_ESC = {"n": "\n", "r": "\r", "t": "\t", "0": "\0", "\\": "\\", '"': '"', "'": "'"}


def _rust_string(s, i):
    """parse a Rust string literal starting at s[i]; returns (value, index after the literal)"""
    if s[i] == "r":
        j = i + 1
        h = 0
        while s[j] == "#":
            h += 1
            j += 1
        if s[j] != '"':
            raise AnchorMissing(f"unparsable raw string in attribute: {s}")
        end = s.index('"' + "#" * h, j + 1)
        return s[j + 1:end], end + 1 + h
    if s[i] != '"':
        raise AnchorMissing(f"attribute does not start with a string literal: {s}")
    out = []
    j = i + 1
    while s[j] != '"':
        ch = s[j]
        if ch == "\\":
            j += 1
            e = s[j]
            if e in _ESC:
                out.append(_ESC[e])
            elif e == "x":
                out.append(chr(int(s[j + 1:j + 3], 16)))
                j += 2
            elif e == "u":
                k = s.index("}", j)
                out.append(chr(int(s[j + 2:k].replace("_", ""), 16)))
                j = k
            elif e == "\n":
                while s[j + 1] in " \t\r\n":
                    j += 1
            else:
                raise AnchorMissing(f"unknown escape \\{e} in attribute string: {s}")
        else:
            out.append(ch)
        j += 1
    return "".join(out), j + 1


def parse_attr(a):
    """'#[regex("0[xX]..", parse_number)]' -> {'kind':'regex','pattern':..., 'rest':'parse_number'}; None for other attributes"""
    m = re.match(r"^#\[(regex|token)\(\s*", a)
    if not m:
        return None
    val, j = _rust_string(a, m.end())
    rest = a[j:].strip()
    if not rest.endswith(")]"):
        raise AnchorMissing(f"unparsable lexer attribute: {a}")
    rest = rest[:-2].strip()
    if rest.startswith(","):
        rest = rest[1:].strip()
    return {"kind": m.group(1), "pattern": val, "rest": rest}


def attr_callback(rest):
    """callback part of the remaining attribute arguments: a path (`parse_number`), 'closure', or None"""
    for p in (x.strip() for x in (rest or "").split(",")):
        if not p or re.match(r"^(priority|ignore)\b", p):
            continue
        p = re.sub(r"^callback\s*=\s*", "", p)
        if re.match(r"^[A-Za-z_][\w:]*$", p):
            return p
        return "closure"
    return None


# =========================================================================== regular languages
NSYM = 129           # 0..127 = ASCII, 128 = "some non-ASCII character"
NONASCII = 128
ALL = frozenset(range(NSYM))


def sym_of(ch):
    return ord(ch) if ord(ch) < 128 else NONASCII


def char_of(sym):
    return chr(sym) if sym < 128 else "é"


class RegexUnsupported(AnchorMissing):
    pass


class _P:
    """recursive-descent parser for the regex subset; AST: ('set',frozenset) ('cat',[..]) ('alt',[..]) ('rep',node,lo,hi|None)"""

    def __init__(self, s):
        self.s = s
        self.i = 0

    def err(self, what):
        raise RegexUnsupported(f"regex construct not supported by the checker ({what}) in /{self.s}/ at offset {self.i}")

    def peek(self):
        return self.s[self.i] if self.i < len(self.s) else None

    def parse(self):
        n = self.alt()
        if self.i != len(self.s):
            self.err("unbalanced )")
        return n

    def alt(self):
        parts = [self.cat()]
        while self.peek() == "|":
            self.i += 1
            parts.append(self.cat())
        return parts[0] if len(parts) == 1 else ("alt", parts)

    def cat(self):
        items = []
        while self.peek() is not None and self.peek() not in "|)":
            items.append(self.rep())
        return ("cat", items)

    def rep(self):
        a = self.atom()
        while True:
            c = self.peek()
            if c == "*":
                a = ("rep", a, 0, None)
            elif c == "+":
                a = ("rep", a, 1, None)
            elif c == "?":
                a = ("rep", a, 0, 1)
            elif c == "{":
                m = re.match(r"\{(\d+)(,(\d*))?\}", self.s[self.i:])
                if not m:
                    self.err("counted repetition")
                lo = int(m.group(1))
                hi = lo if m.group(2) is None else (int(m.group(3)) if m.group(3) else None)
                a = ("rep", a, lo, hi)
                self.i += m.end() - 1
            else:
                return a
            self.i += 1
            if self.peek() == "?":      # lazy quantifier: same language
                self.i += 1

    def escape(self, in_class):
        """after a backslash; returns a frozenset of symbols"""
        c = self.peek()
        if c is None:
            self.err("dangling backslash")
        self.i += 1
        if c == "n":
            return frozenset({10})
        if c == "r":
            return frozenset({13})
        if c == "t":
            return frozenset({9})
        if c == "0":
            return frozenset({0})
        if c == "d":
            return frozenset(range(48, 58)) | {NONASCII}
        if c == "w":
            return frozenset(list(range(48, 58)) + list(range(65, 91)) + list(range(97, 123)) + [95, NONASCII])
        if c == "s":
            return frozenset({9, 10, 11, 12, 13, 32, NONASCII})
        if c in "DWS":
            return ALL - (self.__class__("\\" + c.lower()).atom())[1]
        if c == "x":
            m = re.match(r"([0-9a-fA-F]{2})|\{([0-9a-fA-F]+)\}", self.s[self.i:])
            if not m:
                self.err("\\x escape")
            self.i += m.end()
            return frozenset({min(int(m.group(1) or m.group(2), 16), NONASCII)})
        if c == "u":
            m = re.match(r"\{([0-9a-fA-F]+)\}|([0-9a-fA-F]{4})", self.s[self.i:])
            if not m:
                self.err("\\u escape")
            self.i += m.end()
            return frozenset({min(int(m.group(1) or m.group(2), 16), NONASCII)})
        if c.isalnum():
            self.err(f"escape \\{c}")
        return frozenset({sym_of(c)})

    def cls(self):
        neg = False
        if self.peek() == "^":
            neg = True
            self.i += 1
        acc = set()
        first = True
        while True:
            c = self.peek()
            if c is None:
                self.err("unterminated class")
            if c == "]" and not first:
                self.i += 1
                break
            first = False
            if c == "[":
                self.err("nested / posix class")
            if c == "\\":
                self.i += 1
                lo = self.escape(True)
            else:
                self.i += 1
                lo = frozenset({sym_of(c)})
            if self.peek() == "-" and self.i + 1 < len(self.s) and self.s[self.i + 1] != "]":
                self.i += 1
                c2 = self.peek()
                if c2 == "\\":
                    self.i += 1
                    hi = self.escape(True)
                else:
                    self.i += 1
                    hi = frozenset({sym_of(c2)})
                if len(lo) != 1 or len(hi) != 1:
                    self.err("class range with a multi-character end point")
                a, b = min(lo), min(hi)
                if a > b:
                    self.err("reversed class range")
                acc.update(range(a, b + 1))
            else:
                acc.update(lo)
        s = frozenset(acc)
        return ALL - s if neg else s

    def atom(self):
        c = self.peek()
        if c == "(":
            self.i += 1
            if self.s.startswith("?:", self.i):
                self.i += 2
            elif self.peek() == "?":
                self.err("group flags / look-around")
            n = self.alt()
            if self.peek() != ")":
                self.err("unterminated group")
            self.i += 1
            return n
        if c == "[":
            self.i += 1
            return ("set", self.cls())
        if c == ".":
            self.i += 1
            return ("set", ALL - {10})
        if c == "\\":
            self.i += 1
            if self.peek() in ("b", "B", "A", "z"):
                self.err("anchor")
            return ("set", self.escape(False))
        if c in "^$":
            self.err("anchor")
        if c in "*+?{":
            self.err("repetition without operand")
        self.i += 1
        return ("set", frozenset({sym_of(c)}))


class Dfa:
    def __init__(self, trans, start, accept):
        self.trans = trans      # list of lists (len NSYM) of target state or -1
        self.start = start
        self.accept = accept    # set of states
        self._live = None

    def step(self, q, a):
        return -1 if q < 0 else self.trans[q][a]

    def accepts(self, word):
        q = self.start
        for ch in word:
            q = self.step(q, sym_of(ch))
            if q < 0:
                return False
        return q in self.accept

    def live(self):
        """states from which an accepting state is reachable"""
        if self._live is None:
            rev = defaultdict(set)
            for q, row in enumerate(self.trans):
                for t in row:
                    if t >= 0:
                        rev[t].add(q)
            seen = set(self.accept)
            dq = deque(seen)
            while dq:
                x = dq.popleft()
                for p in rev[x]:
                    if p not in seen:
                        seen.add(p)
                        dq.append(p)
            self._live = seen
        return self._live

    def min_len(self):
        """length (in characters) of the shortest word, None if the language is empty"""
        seen = {self.start}
        layer = [self.start]
        d = 0
        while layer:
            if any(q in self.accept for q in layer):
                return d
            nxt = []
            for q in layer:
                for t in self.trans[q]:
                    if t >= 0 and t not in seen:
                        seen.add(t)
                        nxt.append(t)
            layer = nxt
            d += 1
        return None

    def symbols_at(self, pos_from_start):
        """set of symbols that can occur at character position `pos` (0-based) of some word of the language"""
        live = self.live()
        layer = {self.start} & live
        for _ in range(pos_from_start):
            layer = {t for q in layer for t in self.trans[q] if t >= 0 and t in live}
        out = set()
        for q in layer:
            for a, t in enumerate(self.trans[q]):
                if t >= 0 and t in live:
                    out.add(a)
        return out

    def symbols_from_end(self, k):
        """set of symbols that can occur as the k-th character from the end (k = 1 is the last one)"""
        # states from which exactly k more symbols lead to acceptance: backwards layering
        rev = defaultdict(set)
        for q, row in enumerate(self.trans):
            for a, t in enumerate(row):
                if t >= 0:
                    rev[t].add((q, a))
        reach = self._reachable()
        layer = set(self.accept)
        out = set()
        for step in range(k):
            prev = set()
            out = set()
            for t in layer:
                for q, a in rev[t]:
                    if q in reach:
                        prev.add(q)
                        out.add(a)
            layer = prev
        return out

    def _reachable(self):
        seen = {self.start}
        dq = deque(seen)
        while dq:
            q = dq.popleft()
            for t in self.trans[q]:
                if t >= 0 and t not in seen:
                    seen.add(t)
                    dq.append(t)
        return seen


class Rx:
    """compiled regular expression (full-match semantics, as a lexer rule)"""

    def __init__(self, pattern):
        self.pattern = pattern
        ast = _P(pattern).parse()
        self.n = 0
        self.eps = defaultdict(list)
        self.edges = defaultdict(list)     # state -> [(frozenset, target)]
        s, e = self._build(ast)
        self.dfa = self._determinize(s, e)

    def _new(self):
        self.n += 1
        return self.n - 1

    def _build(self, node):
        k = node[0]
        if k == "set":
            s, e = self._new(), self._new()
            self.edges[s].append((node[1], e))
            return s, e
        if k == "cat":
            s = self._new()
            cur = s
            for it in node[1]:
                a, b = self._build(it)
                self.eps[cur].append(a)
                cur = b
            return s, cur
        if k == "alt":
            s, e = self._new(), self._new()
            for it in node[1]:
                a, b = self._build(it)
                self.eps[s].append(a)
                self.eps[b].append(e)
            return s, e
        if k == "rep":
            _, sub, lo, hi = node
            s = self._new()
            cur = s
            for _ in range(lo):
                a, b = self._build(sub)
                self.eps[cur].append(a)
                cur = b
            if hi is None:
                a, b = self._build(sub)
                self.eps[cur].append(a)
                self.eps[b].append(a)
                e = self._new()
                self.eps[cur].append(e)
                self.eps[b].append(e)
                return s, e
            e = self._new()
            self.eps[cur].append(e)
            for _ in range(hi - lo):
                a, b = self._build(sub)
                self.eps[cur].append(a)
                self.eps[b].append(e)
                cur = b
            return s, e
        raise RegexUnsupported(f"internal: unknown regex node {k}")

    def _closure(self, states):
        seen = set(states)
        st = list(states)
        while st:
            q = st.pop()
            for t in self.eps[q]:
                if t not in seen:
                    seen.add(t)
                    st.append(t)
        return frozenset(seen)

    def _determinize(self, s, e):
        start = self._closure({s})
        ids = {start: 0}
        trans = []
        work = [start]
        while work:
            S = work.pop()
            row = [-1] * NSYM
            # group targets per symbol
            per = defaultdict(set)
            for q in S:
                for cs, t in self.edges[q]:
                    for a in cs:
                        per[a].add(t)
            cache = {}
            for a, ts in per.items():
                key = frozenset(ts)
                if key not in cache:
                    cache[key] = self._closure(key)
                T = cache[key]
                if T not in ids:
                    ids[T] = len(ids)
                    work.append(T)
                row[a] = ids[T]
            while len(trans) <= ids[S]:
                trans.append(None)
            trans[ids[S]] = row
        accept = {i for S, i in ids.items() if e in S}
        return Dfa(trans, 0, accept)

    def accepts(self, w):
        return self.dfa.accepts(w)


# =========================================================================== callback models
class Model:
    """string function of a lexer callback: delete every char in `delete`; if the *lexeme* starts with one of
    `prefixes`, drop the first `skip` remaining characters"""

    def __init__(self, delete=(), prefixes=(), skip=0):
        self.delete = frozenset(delete)
        self.prefixes = tuple(prefixes)
        self.skip = skip

    def apply(self, w):
        out = [c for c in w if c not in self.delete]
        if self.prefixes and any(w.startswith(p) for p in self.prefixes):
            out = out[self.skip:]
        return "".join(out)

    def describe(self):
        d = "deletes " + ",".join(repr(c) for c in sorted(self.delete)) if self.delete else "deletes nothing"
        if self.prefixes:
            d += f"; drops the first {self.skip} remaining characters iff the lexeme starts with " + \
                " or ".join(repr(p) for p in self.prefixes)
        return d


class EvalModel:
    """a lexer callback whose shape is not the delete/strip-prefix one: its syntax tree is evaluated (c11_util.Interp, with
    `lex.slice()` = the lexeme) on sample lexemes instead of being pushed through the automata"""

    def __init__(self, h, crate):
        self.h = h
        self.crate = crate
        self.lits = set()
        for n in walk(h["body"]):
            if n.get("k") == "lit":
                v = n.get("v") or {}
                for key in ("str", "char"):
                    if isinstance(v.get(key), str):
                        self.lits |= set(v[key])

    def apply(self, w):
        from c11_util import Interp, NotEvaluable
        try:
            out = Interp(self.crate).call_fn(self.h, [("lexer", w)])
        except NotEvaluable as e:
            raise AnchorMissing(f"callback {self.h['key']} can be neither modelled nor evaluated (on `{w}`): {e}")
        if not isinstance(out, str):
            raise AnchorMissing(f"callback {self.h['key']} evaluated on `{w}` gives {out!r}, not text")
        return out

    def describe(self):
        return "evaluated on sample lexemes"


def sample_image_not_included(src, model, target, max_len=6, max_words=4000):
    """a lexeme w of L(src), built from representative characters and at most max_len long, with model.apply(w) not in L(target)"""
    S, T = src.dfa, target.dfa
    live = S.live()
    cols = {}
    for a in range(NSYM):
        sig = (tuple(row[a] for row in S.trans), tuple(row[a] for row in T.trans))
        cols.setdefault(sig, a)
    reps = set(cols.values())
    for ch in model.lits:
        for c2 in {ch, ch.lower(), ch.upper()}:
            if len(c2) == 1:
                reps.add(sym_of(c2))
    reps = sorted(reps)
    dq = deque([(S.start, "")])
    n = 0
    while dq and n < max_words:
        q, w = dq.popleft()
        if q in S.accept:
            n += 1
            if not target.accepts(model.apply(w)):
                return w
        if len(w) >= max_len:
            continue
        for a in reps:
            q2 = S.trans[q][a]
            if q2 >= 0 and q2 in live:
                dq.append((q2, w + char_of(a)))
    return None


def _is_slice_of_param(e, params):
    """`<param>.slice()` (logos lexeme)"""
    e = unblock(e)
    if isinstance(e, dict) and e.get("k") == "mcall" and e["m"] == "slice" and (e.get("callee") or "").startswith("logos::"):
        r = unblock(e["recv"])
        while isinstance(r, dict) and r.get("k") in ("ref",) or (isinstance(r, dict) and r.get("k") == "un" and r.get("op") == "Deref"):
            r = r["e"] if r.get("k") == "ref" else r["a"]
        return isinstance(r, dict) and r.get("k") == "path" and (r.get("res") or {}).get("kind") == "Local" and r["res"]["path"] in params
    return False


def _filter_chain(e, params):
    """`lex.slice().chars().filter(|c| *c != 'x' [&& ...])` -> set of deleted chars, or None"""
    e = unblock(e)
    if not (isinstance(e, dict) and e.get("k") == "mcall"):
        return None
    if e["m"] == "chars" and _is_slice_of_param(e["recv"], params):
        return set()
    if e["m"] == "filter" and (e.get("callee") or "").endswith("Iterator::filter"):
        base = _filter_chain(e["recv"], params)
        if base is None or len(e["args"]) != 1 or e["args"][0].get("k") != "closure":
            return None
        cl = e["args"][0]
        if len(cl["params"]) != 1 or cl["params"][0].get("k") != "bind":
            return None
        pn = cl["params"][0]["n"]

        def kept(b):
            """closure body -> set of chars for which it is false (deleted), or None"""
            b = unblock(b)
            if b.get("k") == "bin" and b["op"] == "And":
                x, y = kept(b["a"]), kept(b["b"])
                return None if x is None or y is None else x | y
            if b.get("k") == "bin" and b["op"] == "Ne":
                for u, v in ((b["a"], b["b"]), (b["b"], b["a"])):
                    u0 = unblock(u)
                    while isinstance(u0, dict) and u0.get("k") == "un" and u0.get("op") == "Deref":
                        u0 = unblock(u0["a"])
                    v0 = unblock(v)
                    if u0.get("k") == "path" and (u0.get("res") or {}).get("path") == pn and v0.get("k") == "lit" and "char" in v0["v"]:
                        return {v0["v"]["char"]}
            return None
        d = kept(cl["body"])
        return None if d is None else base | d
    return None


def callback_model(h):
    """match the HIR of a `fn(&mut Lexer) -> String` callback against the delete/strip-prefix shape"""
    params = [p["n"] for p in h["params"] if p.get("k") == "bind"]
    body = h["body"]
    if body.get("k") != "block":
        raise AnchorMissing(f"callback {h['key']}: body is not a block")
    env = {}
    for st in body.get("stmts") or []:
        if st.get("k") == "slet" and st["pat"].get("k") == "bind" and st.get("init") is not None:
            d = _filter_chain(st["init"], params)
            if d is None:
                raise AnchorMissing(f"callback {h['key']}: statement `let {st['pat']['n']} = …` is not a chars().filter(|c| *c != 'x') chain on the lexeme")
            env[st["pat"]["n"]] = d
        else:
            raise AnchorMissing(f"callback {h['key']}: unexpected statement of kind {st.get('k')}")

    def chain(e):
        """iterator expression -> (deleted set, skip) or None"""
        e = unblock(e)
        if e.get("k") == "path" and (e.get("res") or {}).get("kind") == "Local" and e["res"]["path"] in env:
            return env[e["res"]["path"]], 0
        if e.get("k") == "mcall" and e["m"] == "skip" and (e.get("callee") or "").endswith("Iterator::skip"):
            b = chain(e["recv"])
            a = unblock(e["args"][0])
            if b is None or a.get("k") != "lit" or "int" not in a["v"]:
                return None
            return b[0], b[1] + a["v"]["int"]
        d = _filter_chain(e, params)
        if d is not None:
            return d, 0
        return None

    def collected(e):
        e = unblock(e)
        if e.get("k") == "mcall" and e["m"] == "collect" and "alloc::string::String" in (e.get("ga") or [""])[-1]:
            return chain(e["recv"])
        return None

    def prefixes(c):
        c = unblock(c)
        if c.get("k") == "bin" and c["op"] == "Or":
            a, b = prefixes(c["a"]), prefixes(c["b"])
            return None if a is None or b is None else a + b
        if c.get("k") == "mcall" and c["m"] == "starts_with" and (c.get("callee") or "").endswith("<impl str>::starts_with") \
                and _is_slice_of_param(c["recv"], params):
            a = unblock(c["args"][0])
            if a.get("k") == "lit" and "str" in a["v"]:
                return [a["v"]["str"]]
            if a.get("k") == "lit" and "char" in a["v"]:
                return [a["v"]["char"]]
        return None

    tail = unblock(body.get("e")) if body.get("e") else None
    if tail is None:
        raise AnchorMissing(f"callback {h['key']}: no tail expression")
    if tail.get("k") == "if" and tail.get("e") is not None:
        ps = prefixes(tail["c"])
        t, e = collected(tail["t"]), collected(tail["e"])
        if ps is None or t is None or e is None:
            raise AnchorMissing(f"callback {h['key']}: `if` is not `if lexeme.starts_with(lit) [|| …] {{ iter.skip(n).collect() }} else {{ iter.collect() }}`")
        if t[0] != e[0] or e[1] != 0:
            raise AnchorMissing(f"callback {h['key']}: the two branches filter differently or the else branch skips")
        return Model(t[0], ps, t[1])
    c = collected(tail)
    if c is None:
        raise AnchorMissing(f"callback {h['key']}: tail is not `<filtered chars>.collect::<String>()`")
    if c[1]:
        return Model(c[0], [""], c[1])
    return Model(c[0])


def image_not_included(src, model, target):
    """shortest lexeme w of L(src) with model.apply(w) not in L(target); None if the image is included"""
    S, T = src.dfa, target.dfa
    live = S.live()
    delete = {sym_of(c) for c in model.delete}
    L = max((len(p) for p in model.prefixes), default=0)
    pchars = {c for p in model.prefixes for c in p}
    modes = ("strip", "keep") if model.prefixes else ("keep",)

    def decided(pre):
        return any(pre.startswith(p) for p in model.prefixes)

    start = [(S.start, m, "", 0, T.start) for m in modes if S.start in live]
    seen = set(start)
    dq = deque((st, "") for st in start)
    while dq:
        (q, mode, pre, j, tq), w = dq.popleft()
        if q in S.accept:
            ok_mode = (mode == "strip") == (bool(model.prefixes) and decided(pre))
            if ok_mode and tq not in T.accept:
                return w
        for a in range(NSYM):
            q2 = S.trans[q][a]
            if q2 < 0 or q2 not in live:
                continue
            ch = char_of(a)
            pre2 = pre
            if len(pre) < L:
                pre2 = pre + (ch if ch in pchars else "\0")
                # prune: a strip guess that can no longer match, a keep guess that already matched
                if mode == "strip" and not any(p.startswith(pre2) or pre2.startswith(p) for p in model.prefixes):
                    continue
            j2, tq2 = j, tq
            if a in delete:
                pass
            elif mode == "strip" and j < model.skip:
                j2 = j + 1
            else:
                tq2 = T.step(tq, a)
            st = (q2, mode, pre2, j2, tq2)
            if st not in seen:
                seen.add(st)
                dq.append((st, w + ch))
    return None


# =========================================================================== call-graph closure
WORKSPACE = ("candid_parser", "candid", "ic_principal")

MEDIATED = [  # (callee regex, index of the generic argument naming the type, trait regex, method)
    (r"core::str::<impl str>::parse$", 0, r"str::traits::FromStr$", "from_str"),
    (r"<T as core::convert::Into<U>>::into$", 1, r"convert::From<", "from"),
    (r"<T as core::convert::TryInto<U>>::try_into$", 1, r"convert::TryFrom<", "try_from"),
    (r"fmt::rt::Argument::<'_>::new_display$", -1, r"fmt::Display$", "fmt"),
    (r"fmt::rt::Argument::<'_>::new_debug$", -1, r"fmt::Debug$", "fmt"),
    (r"ToString>::to_string$|ToString::to_string$", 0, r"fmt::Display$", "fmt"),
    (r"core::cmp::PartialEq::(eq|ne)$", 0, r"cmp::PartialEq$", "eq"),
    (r"core::cmp::PartialOrd::(partial_cmp|lt|le|gt|ge)$", 0, r"cmp::PartialOrd$", "partial_cmp"),
    (r"core::cmp::Ord::cmp$", 0, r"cmp::Ord$", "cmp"),
    (r"Default>::default$|Default::default$", 0, r"default::Default$", "default"),
]


def crate_of(key):
    m = re.match(r"^<?&?(?:mut )?(\w+)::", key)
    return m.group(1) if m else ""


class Closure:
    """functions of the workspace reachable from `entries` through resolved MIR call edges (closures belong to their
    parent), the generic-mediated edges of MEDIATED (parse -> FromStr impl, format!("{}") -> Display impl, …) and the
    Drop impls of workspace types held in locals. `exclude` (regex on keys) cuts generated code out."""

    def __init__(self, facts, entries, exclude):
        self.bodies = {}
        self.hir = {}
        for n in WORKSPACE:
            c = facts.crate(n)
            for k, b in c.bodies.items():
                self.bodies.setdefault(k, b)
            for k, h in c.hir.items():
                self.hir.setdefault(k, h)
        self.impls = defaultdict(dict)
        self.drops = {}
        for k, b in self.bodies.items():
            im = b.impl
            if im and im.get("trait"):
                self.impls[(im["trait"], b.name)][im["self_ty"]] = k
                if im["trait"].endswith("ops::drop::Drop") and b.name == "drop":
                    self.drops[re.sub(r"<.*>$", "", im["self_ty"])] = k
        ex = re.compile(exclude)
        seen = set()
        q = [e for e in entries]
        while q:
            k = q.pop()
            if k in seen or k not in self.bodies:
                continue
            b = self.bodies[k]
            if b.j["kind"] == "Closure":
                k = self._top(k)
                if k in seen:
                    continue
                b = self.bodies[k]
            seen.add(k)
            cr = crate_of(k)
            for cb in b.with_closures():
                for loc in cb.locals:
                    for st, dk in self.drops.items():
                        if st in loc["ty"] or st.split("::", 1)[-1] in loc["ty"]:
                            if dk not in seen:
                                q.append(dk)
                for _bi, t, cal in cb.call_sites():
                    if cal is None:
                        continue
                    ga = (op_const(t["f"]) or {}).get("ga") or []
                    if cal in self.bodies:
                        if not ex.search(cal) and cal not in seen:
                            q.append(cal)
                        # a workspace function generic over T (`error2<E: ToString>`): T's Display impl may run inside
                        for g in ga:
                            for tgt in self._find_impl(r"fmt::Display$", "fmt", g, cr):
                                if tgt not in seen:
                                    q.append(tgt)
                        continue
                    for rx, idx, tr, nm in MEDIATED:
                        if ga and re.search(rx, cal):
                            for tgt in self._find_impl(tr, nm, ga[idx], cr):
                                if tgt not in seen:
                                    q.append(tgt)
        self.fns = seen

    def _top(self, k):
        while self.bodies[k].j["kind"] == "Closure":
            k = self.bodies[k].parent
        return k

    def _find_impl(self, trait_re, name, ty, crate):
        ty = ty.strip()
        while ty.startswith("&"):
            ty = ty[1:].strip()
        if ty.startswith("mut "):
            ty = ty[4:]
        ty0 = re.sub(r"<.*>$", "", ty)
        out = []
        for (tr, nm), d in self.impls.items():
            if nm == name and re.search(trait_re, tr):
                for st, k in d.items():
                    st0 = re.sub(r"<.*>$", "", st)
                    if st0 == ty0 or st0 == crate + "::" + ty0 or st0.endswith("::" + ty0):
                        out.append(k)
        return out


# =========================================================================== HIR with parents
class Tree:
    """one function's HIR with parent links (closures are inlined by the fact generator)"""

    def __init__(self, h):
        self.h = h
        self.parent = {}
        self.order = {}
        st = [(h["body"], None)]
        n = 0
        while st:
            node, par = st.pop()
            if isinstance(node, dict):
                self.parent[id(node)] = par
                self.order[id(node)] = n
                n += 1
                for v in reversed(list(node.values())):
                    if isinstance(v, (dict, list)):
                        st.append((v, node))
            elif isinstance(node, list):
                for v in reversed(node):
                    if isinstance(v, (dict, list)):
                        st.append((v, par))
        self.param_names = set()
        for p in h.get("params") or []:
            for x in walk(p):
                if x.get("k") == "bind":
                    self.param_names.add(x["n"])

    def up(self, node):
        return self.parent.get(id(node))

    def ancestors(self, node):
        p = self.up(node)
        while p is not None:
            yield p
            p = self.up(p)

    def lets(self):
        """local name -> list of slet nodes binding it with a plain `let x = init`"""
        out = defaultdict(list)
        for n in walk(self.h["body"]):
            if n.get("k") == "slet" and (n.get("pat") or {}).get("k") == "bind" and n.get("init") is not None:
                out[n["pat"]["n"]].append(n)
        return out


UNWRAPS = {"unwrap", "expect", "unwrap_err", "expect_err", "unwrap_unchecked"}
PASS = {"map_err", "map", "and_then", "or_else", "ok_or", "ok_or_else", "ok", "err", "as_ref", "as_mut", "cloned",
        "copied", "context", "with_context", "filter", "transpose", "flatten", "inspect_err", "inspect", "or", "and",
        "as_deref", "as_deref_mut", "clone"}
SAFE_END = {"is_ok", "is_err", "is_some", "is_none", "unwrap_or", "unwrap_or_else", "unwrap_or_default", "map_or",
            "map_or_else", "is_some_and", "is_ok_and", "is_none_or", "is_err_and"}


def is_option_result_method(n):
    c = callee(n) or ""
    return c.startswith("core::option::Option::<T>::") or c.startswith("core::result::Result::<T, E>::") \
        or c.startswith("anyhow::Context::")


def consumer(tree, node, _depth=0):
    """where the value of `node` ends up: ('try'|'match'|'test'|'returned'|'escapes'|'dropped', node) or ('unwrap', mcall)"""
    cur = node
    lets = None
    while True:
        p = tree.up(cur)
        if p is None:
            return ("returned", cur)
        k = p.get("k")
        if k == "block":
            if p.get("e") is cur:
                cur = p
                continue
            return ("dropped", cur)
        if k == "semi":
            return ("dropped", cur)
        if k in ("ref", "cast") or (k == "un" and p.get("op") == "Deref"):
            cur = p
            continue
        if k == "mcall" and p.get("recv") is cur:
            m = p["m"]
            if m in UNWRAPS and is_option_result_method(p):
                return ("unwrap", p)
            if m in SAFE_END:
                return ("test", p)
            if m in PASS:
                cur = p
                continue
            return ("escapes", p)
        if k == "call":
            c = callee(p) or ""
            if c.endswith("Try::branch"):
                return ("try", p)
            if re.search(r"(Option::<T>|Result::<T, E>)::(unwrap|expect|unwrap_err|expect_err|unwrap_unchecked)$", c):
                return ("unwrap", p)
            return ("escapes", p)
        if k == "match" and p.get("scrut") is cur:
            return ("match", p)
        if k == "let" and p.get("init") is cur:
            return ("match", p)
        if k == "if" and p.get("c") is cur:
            return ("test", p)
        if k == "slet" and p.get("init") is cur:
            pat = p.get("pat") or {}
            if pat.get("k") == "bind" and _depth < 4:
                name = pat["n"]
                uses = [n for n in walk(tree.h["body"]) if n.get("k") == "path" and (n.get("res") or {}).get("kind") == "Local"
                        and n["res"]["path"] == name and tree.order[id(n)] > tree.order[id(p)]]
                worst = ("dropped", p)
                for u in uses:
                    r = consumer(tree, u, _depth + 1)
                    if r[0] == "unwrap":
                        return r
                    worst = r
                return worst
            if pat.get("k") == "wild":
                return ("dropped", p)
            return ("match", p)
        if k == "closure":
            return ("returned", p)
        if k == "ret":
            return ("returned", p)
        if k in ("match", "if", "loop", "break"):
            # value of an arm / branch flows to the enclosing expression
            if k == "match" and any(a.get("body") is cur for a in p["arms"]):
                cur = p
                continue
            if k == "if" and (p.get("t") is cur or p.get("e") is cur):
                cur = p
                continue
            return ("escapes", p)
        return ("escapes", p)


def strip_to_local(e):
    """peel refs, derefs, `.0`, as_bytes/as_str/as_ref/deref/borrow/clone/to_string down to a local variable name"""
    while isinstance(e, dict):
        k = e.get("k")
        if k == "block" and not e.get("stmts") and e.get("e"):
            e = e["e"]
        elif k == "ref":
            e = e["e"]
        elif k == "un" and e.get("op") == "Deref":
            e = e["a"]
        elif k == "field":
            e = e["e"]
        elif k == "mcall" and e["m"] in ("as_bytes", "as_str", "as_ref", "deref", "borrow", "clone", "to_string", "to_owned", "as_slice"):
            e = e["recv"]
        elif k == "path" and (e.get("res") or {}).get("kind") == "Local":
            return e["res"]["path"]
        else:
            return None
    return None


# =========================================================================== panic sites (HIR)
INT_TY = re.compile(r"^[ui](8|16|32|64|128|size)$")
PANIC_CALL = re.compile(
    r"^core::option::Option::<T>::(unwrap|expect|unwrap_unchecked)$"
    r"|^core::result::Result::<T, E>::(unwrap|expect|unwrap_err|expect_err|unwrap_unchecked)$"
    r"|^core::panicking::|^std::rt::begin_panic|^std::panicking::|^core::hint::unreachable_unchecked$"
    r"|^core::cell::RefCell::<T>::(borrow|borrow_mut)$"
    r"|^core::slice::<impl \[T\]>::(split_at|split_at_mut|copy_from_slice|clone_from_slice|swap|chunks|chunks_exact|rchunks|rchunks_exact|windows|get_unchecked|get_unchecked_mut|rotate_left|rotate_right|copy_within|select_nth_unstable)$"
    r"|^alloc::vec::Vec::<T, A>::(remove|insert|swap_remove|split_off|drain|set_len)$"
    r"|^alloc::string::String::(remove|insert|insert_str|split_off|drain|replace_range)$"
    r"|^core::str::<impl str>::(split_at|split_at_mut|get_unchecked)$"
    r"|^core::iter::traits::iterator::Iterator::step_by$"
    r"|^core::num::<impl [ui]\w+>::(pow|ilog|ilog2|ilog10|div_euclid|rem_euclid|abs|next_power_of_two|isqrt|next_multiple_of|div_ceil)$"
    r"|^core::char::(methods::<impl char>::)?from_u32_unchecked$"
    r"|^alloc::collections::vec_deque::VecDeque::<T, A>::(remove|insert|swap|split_off|drain)$")
RADIX_CALL = re.compile(r"::(from_str_radix|to_str_radix|parse_bytes|from_digit|to_digit|from_radix_be|from_radix_le|to_radix_be|to_radix_le)$")
USER_MACROS = ("unreachable", "panic", "unimplemented", "todo", "assert", "assert_eq", "assert_ne", "debug_assert",
               "debug_assert_eq", "debug_assert_ne")


def _gen_strip(t):
    """type for a site key: lifetimes and module paths removed (`&RefCell<HashMap<usize, Vec<String>>>`)"""
    t = re.sub(r"'\w+\s*,?\s*", "", t or "?")
    return re.sub(r"\b(?:\w+::)+", "", t)


def compact(path):
    """resolved callee for a site key: generic arguments dropped, last two path segments kept"""
    p = path or "?"
    prev = None
    while prev != p:
        prev = p
        p = re.sub(r"<[^<>]*>", "", p)
    segs = [x for x in p.split("::") if x]
    return "::".join(segs[-2:])


def sites(tree, lets=None):
    """panic sites of one function: list of dict(kind, desc, node, ln). Order = source order."""
    h = tree.h
    lets = lets if lets is not None else tree.lets()
    out = []
    seen_macro_sites = set()

    def origin(e, depth=0):
        """what produced the value: resolved callee of the producing call, or its type"""
        e0 = unblock(e)
        while isinstance(e0, dict) and e0.get("k") in ("ref",):
            e0 = unblock(e0["e"])
        if isinstance(e0, dict) and e0.get("k") in ("call", "mcall"):
            c = callee(e0) or e0.get("m") or "?"
            if e0.get("k") == "mcall" and e0["m"] in PASS and depth < 6:
                return origin(e0["recv"], depth + 1)
            return compact(c)
        if isinstance(e0, dict) and e0.get("k") == "path" and (e0.get("res") or {}).get("kind") == "Local" and depth < 6:
            ls = lets.get(e0["res"]["path"]) or []
            if len(ls) == 1:
                return origin(ls[0]["init"], depth + 1)
            return "local:" + _gen_strip(e0.get("ty"))
        if isinstance(e0, dict) and e0.get("k") == "field":
            return "field:" + e0["n"] + ":" + _gen_strip(e0.get("ty") or e0.get("bty"))
        return "expr:" + str((e0 or {}).get("k"))

    for n in walk(h["body"]):
        k = n.get("k")
        ln = n.get("ln")
        if k in ("call", "mcall"):
            c = callee(n) or ""
            if PANIC_CALL.search(c):
                if c.startswith(("core::panicking::", "std::rt::begin_panic", "std::panicking::")):
                    mac = [m for m in (n.get("mac") or []) if m in USER_MACROS]
                    name = mac[-1] if mac else short(c)
                    # one site per macro invocation: the macro's expansion may contain several panicking calls
                    par = tree.up(n)
                    key = (name, ln, tuple(n.get("mac") or []))
                    if key in seen_macro_sites:
                        continue
                    seen_macro_sites.add(key)
                    out.append({"kind": "panic", "desc": name + "!", "node": n, "ln": ln})
                    continue
                recv = n["recv"] if k == "mcall" else (n["args"][0] if n.get("args") else None)
                meth = short(c)
                if meth in UNWRAPS:
                    out.append({"kind": meth, "desc": f"{meth}({origin(recv)})", "node": n, "ln": ln})
                elif meth in ("borrow", "borrow_mut"):
                    out.append({"kind": meth, "desc": f"RefCell::{meth}({_gen_strip((n.get('recv_ty') or '?'))})", "node": n, "ln": ln})
                else:
                    out.append({"kind": "call", "desc": f"call({compact(c)})", "node": n, "ln": ln})
            elif RADIX_CALL.search(c):
                args = n.get("args") or []
                lits = [unblock(a)["v"]["int"] for a in args if isinstance(unblock(a), dict) and unblock(a).get("k") == "lit"
                        and "int" in (unblock(a).get("v") or {})]
                if not any(2 <= v <= 36 for v in lits):
                    out.append({"kind": "radix", "desc": f"radix({compact(c)})", "node": n, "ln": ln})
        elif k == "index":
            ix = unblock(n["b"])
            if ix.get("k") == "struct":
                form = short((ix.get("res") or {}).get("path") or "range")
            elif ix.get("k") == "lit":
                form = "lit"
            elif ix.get("k") == "call" and "Range" in (callee(ix) or ""):
                form = short(callee(ix).rsplit("::", 1)[0])
            else:
                form = "expr"
            out.append({"kind": "index", "desc": f"index({_gen_strip(n.get('aty'))})[{form}]", "node": n, "ln": ln})
        elif k in ("bin", "assignop"):
            op = (n.get("op") or "").replace("Assign", "")
            if op in ("Add", "Sub", "Mul", "Div", "Rem", "Shl", "Shr") and INT_TY.match(n.get("aty") or ""):
                a, b = unblock(n["a"]), unblock(n["b"])
                if a.get("k") == "lit" and b.get("k") == "lit":
                    continue
                if op in ("Div", "Rem") and b.get("k") == "lit" and b["v"].get("int") not in (0, None) and not n["aty"].startswith("i"):
                    continue     # unsigned division by a non-zero literal cannot trap
                out.append({"kind": "arith", "desc": f"overflow:{op}({n['aty']})", "node": n, "ln": ln})
        elif k == "un" and n.get("op") == "Neg":
            a = unblock(n["a"])
            if a.get("k") != "lit" and INT_TY.match(n.get("aty") or a.get("ty") or ""):
                out.append({"kind": "arith", "desc": f"overflow:Neg({n.get('aty') or a.get('ty')})", "node": n, "ln": ln})
    # ordinals among equal descriptors, in source order
    cnt = defaultdict(int)
    for s in out:
        s["ord"] = cnt[s["desc"]]
        cnt[s["desc"]] += 1
    return out


def mir_arith_asserts(body):
    """arithmetic assertion terminators (overflow / division) of a body and its closures, cleanup blocks excluded"""
    out = []
    for cb in body.with_closures():
        for bi, blk in enumerate(cb.blocks):
            t = blk["t"]
            if t["k"] == "assert" and not cb.is_cleanup(bi):
                msg = str(t.get("msg"))
                if msg in ("div0", "rem0"):
                    # `x / 2`: the zero test compares two constants (mir-opt-level=0 keeps the assertion)
                    cp = op_place(t["c"])
                    const_cmp = any(s["k"] == "assign" and cp is not None and s["p"]["l"] == cp["l"] and s["r"].get("k") == "bin"
                                    and op_const(s["r"]["a"]) is not None and op_const(s["r"]["b"]) is not None for s in blk["s"])
                    if const_cmp:
                        continue
                if msg.startswith("overflow:") or msg in ("div0", "rem0"):
                    out.append((cb, bi, t))
    return out


# =========================================================================== grammar actions
def action_name(h, body=None):
    """stable description of a grammar action: what it builds (workspace constructors / struct literals) or, if it
    builds nothing, which non-std functions it calls, and what it returns — never its number"""
    ctors = set()
    cs = set()
    for n in walk(h["body"]):
        r = None
        if n.get("k") == "call" and isinstance(n.get("callee"), dict) and (n["callee"].get("ctor") or n["callee"].get("kind") in ("Ctor", "Variant", "Struct")):
            r = n["callee"].get("path")
        elif n.get("k") == "struct":
            r = (n.get("res") or {}).get("path")
        elif n.get("k") == "path" and (n.get("res") or {}).get("kind") in ("Variant", "Ctor") or \
                (n.get("k") == "path" and (n.get("res") or {}).get("ctor")):
            r = n["res"].get("path")
        if r and crate_of(r) in WORKSPACE:
            ctors.add(compact(r))
        elif n.get("k") in ("call", "mcall"):
            c = callee(n) or ""
            if c and not c.startswith(("core::", "alloc::", "std::", "<")) and r is None:
                cs.add(compact(c))
    what = "+".join(sorted(ctors)) if ctors else ("calls " + "+".join(sorted(cs)) if cs else "")
    ret = ""
    if body is not None:
        ret = body.locals[0]["ty"]
        ret = re.sub(r", lalrpop_util::ParseError<.*$", ">", ret)
        ret = " -> " + re.sub(r"\b(\w+::)+", "", ret)
    return f"action[{what}{ret}]"


# =========================================================================== interval analysis of one MIR body
BITS = {"u8": 8, "u16": 16, "u32": 32, "u64": 64, "u128": 128, "usize": 64,
        "i8": 8, "i16": 16, "i32": 32, "i64": 64, "i128": 128, "isize": 64}
ITER_BOUND = 1 << 56     # assumed bound on the number of iterations of any loop (input length bound)
_NEG = {"Lt": "Ge", "Le": "Gt", "Gt": "Le", "Ge": "Lt", "Eq": "Ne", "Ne": "Eq"}


def ty_range(ty):
    if ty not in BITS:
        return None
    b = BITS[ty]
    return (-(1 << (b - 1)), (1 << (b - 1)) - 1) if ty.startswith("i") else (0, (1 << b) - 1)


def is_iv(v):
    return isinstance(v, tuple) and len(v) == 2 and isinstance(v[0], int) and isinstance(v[1], int)


class Intervals:
    """Forward interval analysis over the integer places of one MIR body.

    State: place key -> interval | ('ptr', cell key) | ('cmp', op, a, b) | ('src', cell key). Abstract places are
    locals, their fields, and memory cells behind pointer locals (`_20 = copy (*_1).0; (*_20) = …`: `_20` carries
    the cell key). A missing key means "unknown": reads give the full range of the place's type. Calls return the full
    range of their type (value-preserving integer `From` impls return their argument's interval) and kill every
    memory cell and every local whose address was taken. Branches on a comparison refine both operands (and the
    cell an operand was loaded from). Loops: after three plain joins on a back edge, a bound that still grows by d per
    pass is extrapolated to old + d * ITER_BOUND (loops are assumed to run fewer than 2^56 times) and further growth of
    at most d per pass is absorbed; a bound that grows faster makes the place unknown.
    `results[block]` says for every arithmetic assertion whether the intervals prove it."""

    def __init__(self, body):
        self.b = body
        self.results = {}
        self.addr_taken = set()
        for blk in body.blocks:
            for s in blk["s"]:
                if s["k"] == "assign" and s["r"]["k"] == "ref" and not s["r"]["p"].get("p"):
                    self.addr_taken.add(f"_{s['r']['p']['l']}")
        self._run()

    # ---------------------------------------------------------------- places
    @staticmethod
    def _proj(e):
        if e == "*":
            return ".*"
        if isinstance(e, dict) and "f" in e:
            return f".{e['f']}"
        if isinstance(e, dict) and "d" in e:
            return f"@{e.get('vi', e['d'])}"
        return ".[]"

    def _pkey(self, st, place):
        l = place["l"]
        proj = list(place.get("p") or [])
        key = f"_{l}"
        while proj:
            e = proj.pop(0)
            if e == "*":
                v = st.get(key)
                key = v[1] if (isinstance(v, tuple) and v and v[0] == "ptr") else f"(*{key})"
            else:
                key += self._proj(e)
        return key

    def _pty(self, place):
        ty = self.b.local_ty(place["l"])
        for e in place.get("p") or []:
            if e == "*":
                ty = re.sub(r"^&(mut )?|^\*(const|mut) ", "", ty)
            elif isinstance(e, dict) and "f" in e:
                ty = e.get("ty") or "?"
            else:
                ty = "?"
        return ty

    def _read_place(self, st, place):
        v = st.get(self._pkey(st, place))
        return v if is_iv(v) else ty_range(self._pty(place))

    def _read(self, st, o):
        p = op_place(o)
        if p is not None:
            return self._read_place(st, p)
        k = op_const(o) or {}
        v = op_int(o)
        r = ty_range(k.get("ty", ""))
        if v is not None:
            if r and k["ty"].startswith("i") and v > r[1]:
                v -= 1 << BITS[k["ty"]]
            return (v, v)
        return r

    def _forget(self, st, key):
        for k in [k for k in st if k == key or k.startswith(key + ".") or k.startswith(key + "@")]:
            del st[k]
        for k in [k for k, v in st.items() if isinstance(v, tuple) and v and v[0] == "src" and
                  (v[1] == key or v[1].startswith(key + "."))]:
            del st[k]
        if ("src:" + key) in st:
            del st["src:" + key]

    def _assign(self, st, place, val):
        key = self._pkey(st, place)
        self._forget(st, key)
        if val is not None:
            st[key] = val
        return key

    def _kill_memory(self, st):
        for k in [k for k in st if k.startswith("(") or k.startswith("src:")]:
            del st[k]
        for a in self.addr_taken:
            self._forget(st, a)

    # ---------------------------------------------------------------- transfer
    def _rvalue(self, st, r, dest):
        k = r["k"]
        if k == "use":
            p = op_place(r["o"])
            if p is not None:
                key = self._pkey(st, p)
                v = st.get(key)
                if isinstance(v, tuple) and v and v[0] in ("ptr", "cmp"):
                    return v, None
                pty = self._pty(p)
                if pty.startswith("&") or pty.startswith("*"):
                    return ("ptr", f"(*{key})"), None
                return self._read(st, r["o"]), key
            return self._read(st, r["o"]), None
        if k == "ref":
            return ("ptr", self._pkey(st, r["p"])), None
        if k == "cast":
            v = self._read(st, r["o"])
            tr = ty_range(r.get("ty", ""))
            if v is None or tr is None:
                return tr, None
            return (v if tr[0] <= v[0] and v[1] <= tr[1] else tr), None
        if k == "bin":
            op = r["op"]
            a, b = self._read(st, r["a"]), self._read(st, r["b"])
            base = op.replace("WithOverflow", "").replace("Unchecked", "")
            if base in ("Add", "Sub", "Mul"):
                v = None
                if a is not None and b is not None:
                    if base == "Add":
                        v = (a[0] + b[0], a[1] + b[1])
                    elif base == "Sub":
                        v = (a[0] - b[1], a[1] - b[0])
                    else:
                        c = [a[0] * b[0], a[0] * b[1], a[1] * b[0], a[1] * b[1]]
                        v = (min(c), max(c))
                if op.endswith("WithOverflow"):
                    return ("pair", v), None
                tr = ty_range(self._pty(dest))
                if v is None or (tr and not (tr[0] <= v[0] and v[1] <= tr[1])):
                    return tr, None
                return v, None
            if op.endswith("WithOverflow"):
                return ("pair", None), None
            if base in _NEG:
                return ("cmp", base, r["a"], r["b"]), None
            return ty_range(self._pty(dest)), None
        if k == "un" and r.get("op") == "Not":
            p = op_place(r["a"])
            if p is not None:
                v = st.get(self._pkey(st, p))
                if isinstance(v, tuple) and v and v[0] == "cmp":
                    return ("cmp", _NEG[v[1]], v[2], v[3]), None
            return None, None
        return (ty_range(self._pty(dest)) if dest is not None else None), None

    def _transfer(self, bi, st):
        st = dict(st)
        blk = self.b.blocks[bi]
        for s in blk["s"]:
            if s["k"] != "assign":
                continue
            v, src = self._rvalue(st, s["r"], s["p"])
            if isinstance(v, tuple) and v and v[0] == "pair":
                key = self._assign(st, s["p"], None)
                if v[1] is not None:
                    st[key + ".0"] = v[1]
                continue
            key = self._assign(st, s["p"], v)
            if src is not None and not s["p"].get("p"):
                st["src:" + key] = ("src", src)
        t = blk["t"]
        k = t["k"]
        if k == "goto":
            return [(t["t"], st)]
        if k == "assert":
            msg = str(t.get("msg"))
            if msg.startswith("overflow:") or msg in ("div0", "rem0"):
                ops = [self._read(st, o) for o in t.get("ops") or []]
                ok, ty = False, None
                cp = op_place(t["c"])
                if cp is not None and msg.startswith("overflow:") and cp.get("p"):
                    pair = {"l": cp["l"], "p": cp["p"][:-1]}
                    pk = self._pkey(st, pair)
                    m = re.match(r"^\((\w+), bool\)$", self._pty(pair))
                    ty = m.group(1) if m else None
                    tr = ty_range(ty or "")
                    res = st.get(pk + ".0")
                    if is_iv(res) and tr is not None:
                        ok = tr[0] <= res[0] and res[1] <= tr[1]
                        st[pk + ".0"] = (max(res[0], tr[0]), min(res[1], tr[1]))
                elif msg in ("div0", "rem0") and ops:
                    d = ops[-1]
                    ok = d is not None and (d[0] > 0 or d[1] < 0)
                prev = self.results.get(bi)
                self.results[bi] = {"ok": ok and (prev is None or prev["ok"]), "op": msg, "ty": ty, "operands": ops,
                                    "origin": [self.origin_of(o) for o in t.get("ops") or []]}
            return [(t["t"], st)] if t.get("t") is not None else []
        if k == "switch":
            outs = []
            dp = op_place(t["d"])
            cmpv = st.get(self._pkey(st, dp)) if dp is not None else None
            is_cmp = isinstance(cmpv, tuple) and cmpv and cmpv[0] == "cmp"
            for val, tgt in list(zip(t["vals"], t["ts"])) + [(None, t["o"])]:
                s2 = dict(st)
                if is_cmp:
                    truth = (val != 0) if val is not None else (0 in t["vals"])
                    self._refine(s2, cmpv, truth)
                outs.append((tgt, s2))
            return outs
        if k in ("call", "tailcall"):
            d, r = term_callee(t)
            cal = r or d or ""
            args = [self._read(st, a) for a in t.get("args") or []]
            self._kill_memory(st)
            if t.get("dest") is not None:
                v = ty_range(self._pty(t["dest"]))
                if re.search(r"<impl core::convert::From<[ui]\w+> for [ui]\w+>::from$|<[ui]\w+ as core::convert::From<[ui]\w+>>::from$", cal) \
                        and args and args[0] is not None and v is not None and v[0] <= args[0][0] and args[0][1] <= v[1]:
                    v = args[0]
                self._assign(st, t["dest"], v)
            return [(t["t"], st)] if t.get("t") is not None else []
        if k == "drop":
            return [(t["t"], st)] if t.get("t") is not None else []
        return []

    def _refine(self, st, cmpv, truth):
        _, op, a, b = cmpv
        if not truth:
            op = _NEG[op]
        va, vb = self._read(st, a), self._read(st, b)
        if va is None or vb is None:
            return

        def setp(o, v):
            p = op_place(o)
            if p is None or v[0] > v[1]:
                return
            key = self._pkey(st, p)
            st[key] = v
            src = st.get("src:" + key)
            if src is not None:
                st[src[1]] = v
        if op == "Lt":
            setp(a, (va[0], min(va[1], vb[1] - 1)))
            setp(b, (max(vb[0], va[0] + 1), vb[1]))
        elif op == "Le":
            setp(a, (va[0], min(va[1], vb[1])))
            setp(b, (max(vb[0], va[0]), vb[1]))
        elif op == "Gt":
            setp(a, (max(va[0], vb[0] + 1), va[1]))
            setp(b, (vb[0], min(vb[1], va[1] - 1)))
        elif op == "Ge":
            setp(a, (max(va[0], vb[0]), va[1]))
            setp(b, (vb[0], min(vb[1], va[1])))
        elif op == "Eq":
            m = (max(va[0], vb[0]), min(va[1], vb[1]))
            setp(a, m)
            setp(b, m)
        elif op == "Ne":
            if vb[0] == vb[1]:
                if va[0] == vb[0]:
                    setp(a, (va[0] + 1, va[1]))
                elif va[1] == vb[0]:
                    setp(a, (va[0], va[1] - 1))
            if va[0] == va[1]:
                if vb[0] == va[0]:
                    setp(b, (vb[0] + 1, vb[1]))
                elif vb[1] == va[0]:
                    setp(b, (vb[0], vb[1] - 1))

    def origin_of(self, o):
        """what produced an operand (looking back through copies inside the body), for messages and keys"""
        p = op_place(o)
        if p is None:
            return "const"
        want = p["l"]
        for _ in range(8):
            found = None
            for blk in self.b.blocks:
                t = blk["t"]
                if t["k"] == "call" and t.get("dest") is not None and t["dest"]["l"] == want and not t["dest"].get("p"):
                    d, r = term_callee(t)
                    return "call " + (r or d or "?")
                for s in blk["s"]:
                    if s["k"] == "assign" and s["p"]["l"] == want and not s["p"].get("p"):
                        found = s["r"]
            if found is None:
                return "parameter"
            if found["k"] in ("use", "cast"):
                p2 = op_place(found["o"])
                if p2 is None:
                    return "const"
                if p2.get("p"):
                    if "*" in p2["p"]:
                        return "load through " + self.b.local_ty(p2["l"]).split(" ")[0].split("<")[0]
                    return "field load"
                want = p2["l"]
                continue
            return found["k"]
        return "?"

    def _run(self):
        b = self.b
        inn = {0: {}}
        visits = defaultdict(int)
        widened = defaultdict(int)
        frozen = {}
        order = {bb: i for i, bb in enumerate(b.rpo())}
        work = deque([0])
        while work:
            bi = work.popleft()
            visits[bi] += 1
            if visits[bi] > 400:
                for bb in self.results:
                    self.results[bb]["ok"] = False
                self.diverged = True
                return
            for succ, st in self._transfer(bi, inn[bi]):
                if succ is None or b.is_cleanup(succ):
                    continue
                old = inn.get(succ)
                if old is None:
                    inn[succ] = st
                    work.append(succ)
                    continue
                back = order.get(succ, 0) <= order.get(bi, 0)
                new = {}
                for key, a in old.items():
                    c = st.get(key)
                    if c is None:
                        continue
                    if a == c:
                        new[key] = a
                    elif is_iv(a) and is_iv(c):
                        j = (min(a[0], c[0]), max(a[1], c[1]))
                        if j != a and back:
                            # three plain joins, then extrapolate the last per-iteration growth d over ITER_BOUND
                            # iterations and accept further growth of at most d per pass (iteration-bound assumption);
                            # anything growing faster becomes unknown
                            w = widened[(succ, key)]
                            widened[(succ, key)] += 1
                            dlo, dhi = a[0] - j[0], j[1] - a[1]
                            if w == 3:
                                frozen[(succ, key)] = (dlo, dhi)
                                j = (a[0] - dlo * ITER_BOUND, a[1] + dhi * ITER_BOUND)
                            elif w > 3:
                                fz = frozen.get((succ, key))
                                if fz is None or dlo > fz[0] or dhi > fz[1]:
                                    frozen.pop((succ, key), None)
                                    widened[(succ, key)] = 1000
                                    continue
                                j = a
                        new[key] = j
                if new != old:
                    inn[succ] = new
                    work.append(succ)
        self.diverged = False
