"""C11 — printing a value as text and parsing it back returns the same value (structural clauses).

The oracle is the lexer itself: the `#[token]`/`#[regex]` tables of `candid_parser::token::{Token, Text, Comment}` and the
decoding arms of `Tokenizer::next` are turned into a lexer model (c11_util); every escape form, reserved word and number
shape the value printers of `candid::pretty::candid` can emit is pushed through that model."""
import re

from facts import AnchorMissing, callee, lit_value, nodes, pat_alternatives, pat_head, short, unblock, walk
from shared import arm_rows, the_match
from c11_util import (hash_iteration_sites, Formatter, Interp, LexError, Newtype, NotEvaluable, Placeholder, STD_ESCAPERS, Scopes, build_tokenizer,
                      check_quoting_chain, check_quoting_semantic, fmt_calls, is_str_ty, keywords_table, render_placeholder, reserved_words,
                      std_escape_forms, strip_ty)

TITLE = ("C11: every escape form the value printers emit (std escapers, pp_char, blob hex template) is decoded by the "
         "string sub-lexer to the same scalar in every right context; no program text reaches the output unescaped; "
         "identifier-shaped lexer tokens are quoted (KEYWORDS), named labels are never printed raw; number groupings, "
         "signs and type annotations re-lex as one literal and `opt` parenthesises every annotated value; no hash "
         "iteration in the value printers.")

IV = "candid::types::value::IDLValue::"
LB = "candid::types::internal::Label::"
PRINTER = "candid::pretty::candid::"
VALUE_MOD = "candid::pretty::candid::value::"
LABEL_DISPLAY = r"^<candid::types::internal::Label as core::fmt::Display>::fmt$"

ASCII = [chr(i) for i in range(128)]
NON_ASCII = [chr(x) for x in (0x80, 0x9f, 0xa0, 0xad, 0xe9, 0x300, 0x7ff, 0x800, 0x200b, 0xd7ff, 0xe000, 0xfeff, 0xfffd,
                              0xffff, 0x10000, 0x1f600, 0xe0001, 0x10ffff)]
INT_TYPES = {"u8": (0, 255), "u16": (0, 65535), "u32": (0, 2 ** 32 - 1), "u64": (0, 2 ** 64 - 1), "usize": (0, 2 ** 64 - 1),
             "i8": (-128, 127), "i16": (-2 ** 15, 2 ** 15 - 1), "i32": (-2 ** 31, 2 ** 31 - 1), "i64": (-2 ** 63, 2 ** 63 - 1),
             "u128": (0, 2 ** 128 - 1), "i128": (-2 ** 127, 2 ** 127 - 1)}
BIG_TYPES = {"candid::types::number::Nat": False, "candid::types::number::Int": True}
NUMERIC_VARIANTS = {"Int": "candid::types::number::Int", "Nat": "candid::types::number::Nat", "Nat8": "u8", "Nat16": "u16",
                    "Nat32": "u32", "Nat64": "u64", "Int8": "i8", "Int16": "i16", "Int32": "i32", "Int64": "i64"}


def vis(s):
    """printable rendering of an emitted text for messages"""
    return "".join(ch if 0x20 <= ord(ch) < 0x7f else "<U+%04X>" % ord(ch) for ch in s)


def samples_for(ty):
    if ty in INT_TYPES:
        lo, hi = INT_TYPES[ty]
        vals = {0, 1, 7, 12, 123, 999, 1000, 1234, 12345, 123456, 1234567, hi, hi - 1}
        if lo < 0:
            vals |= {-1, -12, -123, -999, -1000, -1234, -12345, -123456, lo, lo + 1}
        return sorted(v for v in vals if lo <= v <= hi)
    if ty in BIG_TYPES:
        vals = [0, 1, 12, 123, 999, 1000, 123456, 1234567, 10 ** 30, 2 ** 128 + 1]
        if BIG_TYPES[ty]:
            vals += [-1, -12, -123, -999, -1000, -123456, -(10 ** 30)]
        return [Newtype(v) for v in vals]
    return None


# ============================================================================ printer inventory
def printer_fns(c, prefix=PRINTER):
    return [h for k, h in c.hir.items() if (k.startswith(prefix) or re.search(LABEL_DISPLAY, k))
            and h.get("kind") in ("Fn", "AssocFn")]


def fn_short(h):
    k = h["key"]
    m = re.search(r"<impl core::fmt::(\w+) for ([\w:]+)>::fmt$", k) or re.search(r"^<([\w:]+) as core::fmt::(\w+)>::fmt$", k)
    if m:
        a, b = m.group(1), m.group(2)
        tr, ty = (a, b) if a in ("Debug", "Display") else (b, a)
        return f"{tr}<{short(ty)}>"
    return k[len(PRINTER):] if k.startswith(PRINTER) else k


class Flow:
    """classification of what a format placeholder / document sink prints"""

    def __init__(self, c, fn_hir):
        self.c = c
        self.h = fn_hir
        self.sc = Scopes(fn_hir)

    def context(self, node):
        return self.sc.ctx.get(id(node), "")

    def classify(self, p):
        """-> (class, detail). classes: escaper, recursive, number, principal, doc, label, ident, pp_char, hexbyte,
        number-text, literal, repo-fn, raw, unknown"""
        ty = strip_ty(p.ty)
        if p.trait == "debug":
            if re.search(r"value::(IDLValue|IDLField|IDLArgs)>?$", ty) or re.search(r"Box<candid::types::value::(IDLValue|IDLField)>$", ty):
                return "recursive", ty
            if is_str_ty(ty):
                return "escaper", "<char as Debug>" if ty == "char" else "<str as Debug>"
            return "unknown", f"{{:?}} of {ty}"
        if p.trait in ("lower_hex", "upper_hex"):
            return ("hexbyte", ty) if ty == "u8" else ("number", ty)
        if p.trait != "display":
            return "unknown", f"format trait {p.trait} of {ty}"
        m = re.match(r"core::(str::iter|char)::Escape(Debug|Default|Unicode)", ty)
        if m:
            return "escaper", ("str::" if m.group(1) != "char" else "char::") + "escape_" + m.group(2).lower()
        if ty.endswith("ic_principal::Principal"):
            return "principal", ty
        if ty in INT_TYPES or ty in BIG_TYPES or ty in ("bool", "f32", "f64"):
            return "number", ty
        if ty.startswith("pretty::"):
            return "doc", ty
        if ty == "candid::types::internal::Label" or ty.endswith("Rc<candid::types::internal::Label>"):
            return "label", ty
        if is_str_ty(ty):
            return self.classify_str(p.expr, 0)
        return "unknown", f"Display of {ty}"

    def classify_str(self, e, depth):
        if depth > 6 or not isinstance(e, dict):
            return "unknown", "expression too deep"
        e = unblock(e)
        while e.get("k") == "ref" or (e.get("k") == "un" and e.get("op") == "Deref"):
            e = unblock(e["e"] if e.get("k") == "ref" else e["a"])
        k = e.get("k")
        if k == "lit":
            return "literal", lit_value(e)
        if k == "call":
            cal = callee(e) or ""
            if cal.endswith("hint::must_use") or cal.endswith("alloc::fmt::format"):
                return "format", None
            if cal.endswith("pretty::candid::ident_string"):
                return "ident", cal
            if cal.endswith("pretty::candid::value::pp_char"):
                return "pp_char", cal
            if cal.endswith("candid::utils::pp_num_str"):
                return "number", cal
            if cal.endswith("pretty::candid::value::number_to_string"):
                return "number", cal
            if cal in self.c.hir:
                return "repo-fn", cal
            return "unknown", f"call {cal}"
        if k == "mcall":
            rt = strip_ty(e.get("recv_ty"))
            if e["m"] == "to_string":
                if rt in INT_TYPES or rt in BIG_TYPES or rt in ("f32", "f64", "bool"):
                    return "number", f"{rt}::to_string"
                if rt == "candid::types::internal::Label":
                    return "label", e
                if rt.endswith("ic_principal::Principal"):
                    return "principal", rt
                if is_str_ty(rt):
                    return self.classify_str(e["recv"], depth + 1)
            if e["m"] in ("as_str", "as_ref", "clone", "to_owned", "borrow", "deref", "into"):
                return self.classify_str(e["recv"], depth + 1)
            return "unknown", f"method {e['m']} on {rt}"
        if k in ("match", "if"):
            bodies = [a["body"] for a in e["arms"]] if k == "match" else [e["t"]] + ([e["e"]] if e.get("e") else [])
            res = [self.classify_str(b, depth + 1) for b in bodies]
            for bad in ("raw", "unknown"):
                for r in res:
                    if r[0] == bad:
                        return r
            kinds = {r[0] for r in res}
            if kinds <= {"ident", "label", "number", "literal"}:
                lab = [r for r in res if r[0] == "label"]
                if lab:
                    return "label-in-match", (e, lab)
                return ("ident" if "ident" in kinds else sorted(kinds)[0]), None
            return "unknown", f"mixed branches {sorted(kinds)}"
        if k == "path":
            r = e.get("res") or {}
            if r.get("kind") == "Local":
                nm = r["path"]
                b = self.sc.use.get(id(e))
                if b is None:
                    return "unknown", f"`{nm}`: binding not found"
                if b["init"] is not None:
                    return self.classify_str(b["init"], depth + 1)
                org = b["origin"] or ""
                if org == IV + "Number":
                    return "number-text", nm
                if "::" in org:
                    return "raw", f"`{nm}` bound by {short(org)}(..)"
                return "raw", f"`{nm}` ({org})"
            return "unknown", f"path {r.get('path')}"
        return "unknown", f"expression {k}"


def emission_order(node):
    """format calls under node in emission order, with the quote state before each part:
    yields (FmtCall, part, inside_quotes_before_part)"""
    inside = False
    for fc in fmt_calls(node):
        for part in fc.parts:
            if isinstance(part, str):
                yield fc, part, inside
                # a backslash-quote inside a literal piece would be an escaped quote in the output
                i = 0
                while i < len(part):
                    if part[i] == "\\" and inside:
                        i += 2
                        continue
                    if part[i] == '"':
                        inside = not inside
                    i += 1
            else:
                yield fc, part, inside


# ============================================================================ the rules
def run(chk, facts, tier, only=None):
    c = facts.crate("candid")
    p = facts.crate("candid_parser")
    state = {}

    def lexer():
        if "lexer" not in state:
            state["lexer"] = build_tokenizer(facts)
        return state["lexer"]

    def label_display_is_raw():
        """does `Display for Label` print a Named label without going through ident_string / an escaper?"""
        h = c.fn(LABEL_DISPLAY)
        m = the_match(h, r"Label$", 2)
        for r in arm_rows(m):
            if any(hd[0] == LB + "Named" for hd in r["heads"]):
                fl = Flow(c, h)
                for fc in fmt_calls(r["body"]):
                    for ph in fc.placeholders():
                        cls, _ = fl.classify(ph)
                        if cls == "raw":
                            return True, h
                return False, h
        raise AnchorMissing("Display for Label has no arm for Label::Named")

    # ------------------------------------------------------------------------------------------------ R1
    def r1():
        model, info = lexer()
        chk.analysed(info["fn"])
        chk.ok("lexer:escape-arms", "EscapeCharacter arms decode " + " ".join("\\" + k for k in sorted(info["escapes"])))
        chk.floor("escape characters known to the string sub-lexer", len(info["escapes"]), 4)

        memo = {}

        def decode(body):
            if body not in memo:
                try:
                    memo[body] = model.lex_string(body)
                except LexError as e:
                    memo[body] = e
            return memo[body]

        def check_escaper(name, emit_alternatives, alphabet, sites):
            """emit_alternatives(text) -> list of possible emitted bodies for `text`. Every 1- and 2-scalar text over
            the alphabet must decode to itself. Failures are grouped by the form given to the first scalar."""
            fails = {}
            groups = {}
            solo_bad = {a: any(decode(body) != a.encode("utf-8", "surrogatepass") for body in emit_alternatives(a)) for a in alphabet}
            right = [a for a in alphabet if ord(a) < 128 or a in ("\x80", "é", "̀", "\U0010ffff")]
            for a in alphabet:
                fa = emit_alternatives(a)
                for f in fa:
                    lab = f if (len(f) == 2 and f[0] == "\\") else ("\\u{..}" if f.startswith("\\u{") else
                                                                      ("\\xx" if f.startswith("\\") else "literal"))
                    groups.setdefault(lab, 0)
                    groups[lab] += 1
                for b in [None] + right:
                    text = a + (b or "")
                    want = text.encode("utf-8", "surrogatepass")
                    if b is not None and solo_bad.get(b):
                        continue        # the right neighbour is itself a failing form: reported where it comes first
                    for body in emit_alternatives(text):
                        got = decode(body)
                        if got != want:
                            f0 = next((f for f in fa if body.startswith(f)), fa[0])
                            lab = f0 if (len(f0) == 2 and f0[0] == "\\") else ("\\u{..}" if f0.startswith("\\u{") else
                                                                                 ("\\xx" if f0.startswith("\\") else "literal:" + vis(a)))
                            fails.setdefault(lab, []).append((text, body, got))
            for lab in sorted(groups):
                if lab in fails or (lab == "literal" and any(x.startswith("literal:") for x in fails)):
                    continue
                chk.ok(f"form:{name}:{lab}", f"{groups[lab]} sample scalar(s) x {len(right) + 1} right contexts re-lex to the same text")
            for lab, fl in sorted(fails.items()):
                text, body, got = fl[0]
                hexctx = [t for t, _, g in fl if len(t) == 2 and t[1] in "0123456789abcdefABCDEF" and not isinstance(g, LexError)]
                errs = [t for t, _, g in fl if isinstance(g, LexError)]
                what = []
                if hexctx:
                    t = next((x for x in hexctx if x[1] == "1"), hexctx[0])
                    b0 = [b for x, b, _ in fl if x == t][0]
                    g0 = [g for x, _, g in fl if x == t][0]
                    what.append(f"followed by a hex digit the text is re-read differently (e.g. text {vis(t)!r} is printed "
                                f"\"{vis(b0)}\" and re-read as bytes {g0.hex()} instead of {t.encode('utf-8', 'surrogatepass').hex()}: "
                                f"the sub-lexer's Byte rule `\\xx` takes two hex digits after a backslash)")
                if errs:
                    t = errs[0]
                    b0 = [b for x, b, _ in fl if x == t][0]
                    g0 = [g for x, _, g in fl if x == t][0]
                    what.append(f"in {len(errs)} context(s) the lexer rejects it (e.g. text {vis(t)!r} is printed "
                                f"\"{vis(b0)}\": {g0})")
                if not what:
                    what.append(f"text {vis(text)!r} is printed \"{vis(body)}\" and re-read as {got!r}")
                chk.bad(f"form:{name}:{lab.split(':')[0] if lab.startswith('literal:') else lab}"
                        + (":" + lab.split(":", 1)[1] if lab.startswith("literal:") else ""),
                        f"escaper {name} (used by {', '.join(sorted(set(sites)))}) emits {vis(lab)!r} which the string "
                        f"sub-lexer does not decode to the same scalar in every right context: " + "; ".join(what),
                        where=None)

        # ---- inventory of text sinks in the value printers and the identifier quoter
        escaper_sites = {}       # escaper id -> [fn short]
        repo_escapers = {}       # callee -> [fn short]
        n_place = 0
        n_quoted = 0
        fns = printer_fns(c)
        records = []
        for h in fns:
            chk.analysed(h["key"])
            in_value = h["key"].startswith(VALUE_MOD) or h["key"].endswith("pretty::candid::ident_string") \
                or re.search(LABEL_DISPLAY, h["key"])
            if not in_value:
                continue
            fl = Flow(c, h)
            for fc, part, inside in emission_order(h["body"]):
                if isinstance(part, Placeholder):
                    cls, det = fl.classify(part)
                    records.append((h, fl, fc, part, inside, cls, det))
        # leaf escapers are evaluated as a whole below; their own templates are not sinks
        leaf = {h["key"] for h in fns if h["key"].endswith("pretty::candid::value::pp_char")}
        leaf |= {det for (_, _, _, _, inside, cls, det) in records if cls == "repo-fn" and inside}
        used_keys = {}
        for h, fl, fc, part, inside, cls, det in records:
            if h["key"] in leaf:
                continue
            fs = fn_short(h)
            n_place += 1
            where = f"{h['span']['file']}:{fc.ln}"
            ctx = fl.context(fc.node)
            ktpl = "".join(x if isinstance(x, str) else "{%s:%s}" % (x.trait, short(strip_ty(x.ty))) for x in fc.parts)
            tag = f"{fs}:{ctx + ':' if ctx else ''}{vis(ktpl)}#{fc.parts.index(part)}"
            used_keys[tag] = used_keys.get(tag, 0) + 1
            if used_keys[tag] > 1:
                tag += f"~{used_keys[tag]}"
            if cls == "escaper":
                escaper_sites.setdefault(det, []).append(fs)
                wraps = STD_ESCAPERS.get(det, (None, None, None))[2]
                if det not in STD_ESCAPERS or wraps == "'":
                    chk.bad(f"sink:{tag}", f"{fs}: text is formatted with {det}, whose output is not a Candid string body", where)
                elif (wraps is None) != inside:
                    chk.bad(f"sink:{tag}", f"{fs}: {det} output is placed {'inside' if inside else 'outside'} string quotes "
                                           f"in template {vis(fc.template())!r}", where)
                else:
                    n_quoted += 1
                    chk.ok(f"sink:{tag}", f"escaped by {det}")
            elif cls in ("pp_char", "hexbyte"):
                if not inside:
                    chk.bad(f"sink:{tag}", f"{fs}: blob byte printed outside string quotes in {vis(fc.template())!r}", where)
                elif cls == "hexbyte":
                    i = fc.parts.index(part)
                    pre = fc.parts[i - 1] if i > 0 and isinstance(fc.parts[i - 1], str) else ""
                    good = pre.endswith("\\") and not pre.endswith("\\\\")
                    body_ok = good and all(decode("\\" + render_placeholder(part, v) + ctx_) == bytes([v]) + decode(ctx_)
                                           for v in range(256) for ctx_ in ("", "0", "f", "A", "z", "\\00"))
                    chk.expect(bool(body_ok), f"sink:{tag}",
                               f"{fs}: blob byte template {vis(fc.template())!r} must be a backslash followed by exactly two "
                               f"hex digits (`\\{{:02x}}`) so that the Byte regex decodes it to the same byte", where,
                               ok_detail="256 bytes x 6 right contexts decode to the same byte")
                    n_quoted += 1
                else:
                    n_quoted += 1
                    chk.ok(f"sink:{tag}", "byte printed by pp_char")
            elif cls == "principal":
                chk.expect(inside, f"sink:{tag}", f"{fs}: principal text printed outside string quotes in {vis(fc.template())!r}", where,
                           ok_detail="principal text (base32 alphabet) inside quotes")
            elif cls == "repo-fn":
                if inside:
                    repo_escapers.setdefault(det, []).append(fs)
                    n_quoted += 1
                    chk.ok(f"sink:{tag}", f"escaped by {det}")
                else:
                    chk.bad(f"sink:{tag}", f"{fs}: the result of {det} is printed outside quotes in {vis(fc.template())!r}; "
                                           f"cannot establish that it is a token sequence", where)
            elif cls in ("recursive", "number", "doc", "ident", "literal", "format", "number-text", "label", "label-in-match"):
                if inside:
                    chk.bad(f"sink:{tag}", f"{fs}: {cls} value printed inside string quotes in {vis(fc.template())!r}", where)
                else:
                    chk.ok(f"sink:{tag}", cls, nontrivial=False)
                if cls == "number-text":
                    chk.assume("IDLValue::Number holds the digit string produced by the parser's NumLiteral (optional '-', decimal digits)")
            elif cls == "raw":
                if re.search(LABEL_DISPLAY, h["key"]):
                    # Display for Label prints names raw by design; its uses are judged by C11.R2
                    chk.ok(f"sink:{tag}", "Label::Named printed raw by Display for Label (uses are checked by R2)", nontrivial=False)
                else:
                    chk.bad(f"sink:{tag}", f"{fs}: program text {det} reaches the output through template "
                                           f"{vis(fc.template())!r} without an escaper", where)
            else:
                chk.bad(f"sink:{tag}", f"{fs}: cannot classify what template {vis(fc.template())!r} prints ({det}); "
                                       f"anchor moved or unescaped text", where)
        # document sinks (RcDoc::text / as_string / kwd / str / ident) fed with a string that is not a literal
        n_doc = 0
        for h in fns:
            in_value = h["key"].startswith(VALUE_MOD) or re.search(r"pretty::candid::(pp_text|pp_label_raw|pp_label)$", h["key"])
            if not in_value or h["key"] in leaf:
                continue
            fl = Flow(c, h)
            fs = fn_short(h)
            for n in walk(h["body"]):
                if n.get("k") != "call" or not n.get("args"):
                    continue
                cal = callee(n) or ""
                if not (re.search(r"RcDoc(::<[^>]*>)?::(text|as_string)$", cal) or re.search(r"pretty::utils::(kwd|str|ident)$", cal)):
                    continue
                a = n["args"][0]
                aty = strip_ty(a.get("ty") or (n.get("ga") or [""])[-1])
                if aty.endswith("internal::Label"):
                    continue        # judged by R2 (label-display)
                cls, det = fl.classify_str(a, 0)
                if cls == "literal":
                    continue
                n_doc += 1
                ctx = fl.context(n)
                key = f"docsink:{fs}:{ctx + ':' if ctx else ''}{short(cal)}"
                used_keys[key] = used_keys.get(key, 0) + 1
                if used_keys[key] > 1:
                    key += f"~{used_keys[key]}"
                chk.expect(cls in ("format", "ident", "number", "number-text"), key,
                           f"{fs}: {short(cal)}(..) puts {det if isinstance(det, str) else cls} into the printed document without "
                           f"quoting/escaping ({cls})", f"{h['span']['file']}:{n.get('ln')}", ok_detail=cls)
        chk.floor("non-literal document sinks in the value printers", n_doc, 4)
        chk.floor("format placeholders in the value printers", n_place, 30)
        chk.floor("quoted text/byte sinks in the value printers", n_quoted, 6)
        chk.assume("Principal's Display prints only base32 groups (letters, digits 2-7, '-'): no quote or backslash")

        # ---- std escapers in use
        alphabet = ASCII + NON_ASCII
        for esc in sorted(escaper_sites):
            if esc not in STD_ESCAPERS:
                continue

            def alts(text, esc=esc):
                outs = [""]
                for ch in text:
                    outs = [o + f for o in outs for f in std_escape_forms(esc, ch)]
                return outs
            check_escaper(esc, alts, alphabet, escaper_sites[esc])
        chk.assume("std escapers (str::escape_debug, Debug for str) emit exactly the published forms "
                   "\\0 \\t \\r \\n \\\\ \\' \\\" \\u{hex} or the character itself")
        # ---- escapers defined in the repository: evaluated on the sample alphabet
        small = ASCII + ["\x80", "é"]
        for cal in sorted(repo_escapers):
            h = c.hir[cal]
            chk.analysed(cal)
            # extra parameters (flags): every literal combination used at the call sites
            combos = set()
            for g in fns:
                for n in walk(g["body"]):
                    if n.get("k") == "call" and callee(n) == cal:
                        combos.add(tuple(lit_value(a) if lit_value(a) is not None else "?" for a in n["args"][1:]))
            for extra in sorted(combos, key=str):
                if "?" in extra:
                    chk.bad(f"escaper:{short(cal)}", f"{cal} is called with non-literal extra arguments; cannot evaluate it")
                    continue
                interp = Interp(c)

                def alts(text, h=h, extra=extra, interp=interp):
                    try:
                        r = interp.call_fn(h, [text] + list(extra))
                    except NotEvaluable as e:
                        raise AnchorMissing(f"escaper {cal} is outside the evaluable fragment: {e}")
                    if not isinstance(r, str):
                        raise AnchorMissing(f"escaper {cal} did not evaluate to a string")
                    return [r]
                name = short(cal) + ("(" + ",".join(str(x).lower() for x in extra) + ")" if extra else "")
                check_escaper(name, alts, small, repo_escapers[cal])

        # ---- pp_char: all 256 bytes, every right context
        h = c.fn(r"pretty::candid::value::pp_char$")
        chk.analysed(h["key"])
        interp = Interp(c)
        emitted = []
        for v in range(256):
            try:
                s = interp.call_fn(h, [v])
            except NotEvaluable as e:
                raise AnchorMissing(f"pp_char is outside the evaluable fragment: {e}")
            if not isinstance(s, str):
                raise AnchorMissing("pp_char did not evaluate to a string")
            emitted.append(s)
        nbad = 0
        solo_bad = {w for w in range(256) if decode(emitted[w]) != bytes([w])}
        ctx_bytes = [None] + [w for w in range(256) if w not in solo_bad and
                              (not emitted[w].startswith("\\") or w in (0, 0x0a, 0x22, 0x27, 0x5c, 0x60, 0x7f, 0xff))]
        for v in range(256):
            bad = None
            for w in ctx_bytes:
                body = emitted[v] + (emitted[w] if w is not None else "")
                want = bytes([v] + ([w] if w is not None else []))
                got = decode(body)
                if got != want:
                    bad = (w, body, got)
                    break
            if bad:
                nbad += 1
                w, body, got = bad
                chk.bad(f"pp_char:byte:{v:02x}",
                        f"pp_char({v:#04x}) emits {vis(emitted[v])!r}; " +
                        (f"followed by the output for byte {w:#04x} " if w is not None else "at the end of the string ") +
                        f"the body \"{vis(body)}\" is re-read as {got!r} instead of {bytes([v] + ([w] if w is not None else []))!r}",
                        where=f"{h['span']['file']}:{h['span']['lo']}")
        if not nbad:
            lit = sum(1 for v in range(256) if not emitted[v].startswith("\\"))
            chk.ok("pp_char:256-bytes", f"{lit} bytes printed literally, {256 - lit} as \\xx; all decode to the same byte in {len(ctx_bytes)} right contexts")

    # ------------------------------------------------------------------------------------------------ R2
    def r2():
        model, info = lexer()
        words, problems = reserved_words(model)
        for name, pat in problems:
            chk.bad(f"token-overlap:{name}", f"lexer rule Token::{name} /{pat}/ overlaps the identifier regex with an infinite "
                                             f"language: reserved words cannot be enumerated")
        chk.floor("identifier-shaped lexer tokens", len(words), 14)
        kws, kh = keywords_table(c)
        chk.analysed(kh["key"])
        where = f"{kh['span']['file']}:{kh['span']['lo']}"
        for w in words:
            chk.expect(w in kws, f"keyword:{w}",
                       f"`{w}` is lexed as a keyword token (it matches the identifier regex but Token::Id loses to a "
                       f"#[token]/#[regex] rule) and is missing from KEYWORDS in pretty/candid.rs: a field, variant or "
                       f"method named `{w}` is printed unquoted and does not re-parse as a name", where,
                       ok_detail="in KEYWORDS")
        probs, keys = check_quoting_chain(c)
        chk.analysed(*keys)
        sem, sem_detail = check_quoting_semantic(c, model, words)
        chk.analysed(c.fn(r"pretty::candid::ident_string$")["key"])
        if sem == "bad":
            chk.bad("quoting-chain", sem_detail)
        elif sem == "ok":
            chk.ok("quoting-chain", sem_detail + ("" if not probs else f" (shape differs from the reference: {probs})"))
        else:
            for pr in probs:
                chk.bad("quoting-chain", f"anchor moved: {pr} (and ident_string is not evaluable: {sem_detail})")
            if not probs:
                chk.ok("quoting-chain", "ident_string quotes iff needs_quote = !is_valid_as_id || is_keyword; is_keyword = KEYWORDS.contains")
        # a func reference is printed `func "<principal>".<method>`, the method unquoted when ident_string leaves it so: after a dot the
        # name must still lex as Dot, Id (a float regex that swallows `.e5` would take the dot away)
        ids_h = c.fn(r"pretty::candid::ident_string$")
        try:
            it_d = Interp(c)
            bad_d = None
            for nm_ in ("a", "e5", "E10", "e2e_test", "e", "E", "x_1", "_e1", "e0", "inf", "nan"):
                if it_d.call_fn(ids_h, [nm_]) != nm_:
                    continue
                try:
                    toks_ = model.tokenize('"p".' + nm_)
                except LexError as e_:
                    toks_ = e_
                kinds_ = [t_[0] for t_ in toks_] if isinstance(toks_, list) else None
                if kinds_ is None or kinds_[-2:] != ["Dot", "Id"] and bad_d is None:
                    bad_d = (nm_, toks_)
            chk.expect(bad_d is None, "method-after-dot:lexes-as-dot-id",
                       f"the method name `{bad_d and bad_d[0]}` is printed unquoted after the dot of a func reference, but `\"p\".{bad_d and bad_d[0]}` lexes "
                       f"as {bad_d and bad_d[1]} instead of … Dot Id: the printed reference does not parse back",
                       ok_detail="unquoted names after `.` lex as Dot, Id (11 samples incl. e5 / E10)")
        except NotEvaluable:
            pass
        # is_valid_as_id accepts only strings the lexer reads as one Id (or reserved-word) token: bounded enumeration
        h = c.fn(r"pretty::candid::is_valid_as_id$")
        chk.analysed(h["key"])
        interp = Interp(c)
        alpha = ["a", "Z", "_", "0", "9", "-", " ", ".", "é", '"', "\\", "\n", "'", "+", "\0"]
        bad = None
        n_acc = 0
        todo = [""]
        for ln in range(0, 4):
            nxt = []
            for s in todo:
                try:
                    acc = interp.call_fn(h, [s])
                except NotEvaluable as e:
                    raise AnchorMissing(f"is_valid_as_id is outside the evaluable fragment: {e}")
                if acc:
                    n_acc += 1
                    try:
                        toks = model.tokenize(s)
                    except LexError as e:
                        toks = e
                    single = isinstance(toks, list) and len(toks) == 1 and toks[0][1] == s
                    if not single and bad is None:
                        bad = (s, toks)
                    if single and toks[0][0] != "Id" and s not in words and bad is None:
                        bad = (s, toks)
                if ln < 3:
                    nxt.extend(s + ch for ch in alpha)
            todo = nxt
        chk.expect(bad is None, "is_valid_as_id:single-token",
                   f"is_valid_as_id accepts {bad and vis(bad[0])!r}, which the lexer does not read as one identifier token "
                   f"({bad and bad[1]}): it would be printed unquoted", f"{h['span']['file']}:{h['span']['lo']}",
                   ok_detail=f"all {n_acc} accepted strings of length <= 3 over a 15-character alphabet lex as one Id/keyword token")
        # Named labels never printed raw: uses of Display for Label
        raw, lh = label_display_is_raw()
        chk.analysed(lh["key"])
        n_sites = 0
        seen_keys = {}
        for hh in printer_fns(c):
            if re.search(LABEL_DISPLAY, hh["key"]):
                continue
            fl = Flow(c, hh)
            fs = fn_short(hh)
            seen = 0
            for site, guard_ok, where in label_display_sites(hh, fl):
                n_sites += 1
                seen += 1
                key = f"label-display:{fs}:{site}"
                if key in seen_keys:
                    seen_keys[key] += 1
                    key += f"~{seen_keys[key]}"
                else:
                    seen_keys[key] = 1
                if not raw:
                    chk.ok(key, "Display for Label quotes named labels itself")
                else:
                    chk.expect(guard_ok, key,
                               f"{fs}: a Label is printed with `Display for Label` ({site}), which writes Label::Named names raw "
                               f"(no quoting, no keyword test), at a place where the label may be Named: e.g. the value "
                               f"variant {{ \"a b\" }} (or a variant named `record`) is printed as `variant {{ a b }}` and "
                               f"does not re-parse", where,
                               ok_detail="only reachable for Label::Id / Label::Unnamed")
        chk.floor("uses of Display for Label in the printers", n_sites, 3)

    def label_display_sites(hh, fl):
        """(description, guarded, where) for every place in hh that formats a Label through its Display impl"""
        out = []
        body = hh["body"]
        # map node id -> guarded (inside a match arm on a Label that excludes Named)
        guarded = set()

        def mark(node):
            for n in walk(node):
                guarded.add(id(n))

        for m in nodes(body, "match"):
            if not re.search(r"internal::Label$", strip_ty(m.get("sty"))):
                continue
            named_seen = False
            for a in m["arms"]:
                heads = [pat_head(x) for x in pat_alternatives(a["pat"])]
                if all(isinstance(hd, str) and hd in (LB + "Id", LB + "Unnamed") for hd in heads):
                    mark(a["body"])
                elif any(hd == LB + "Named" for hd in heads):
                    if a.get("guard") is None:
                        named_seen = True
                elif named_seen:
                    mark(a["body"])      # catch-all after an unguarded Named arm
        for n in walk(body):
            site = None
            if n.get("k") == "mcall" and n["m"] == "to_string" and strip_ty(n.get("recv_ty")) == "candid::types::internal::Label":
                site = "to_string"
            elif n.get("k") == "call" and re.search(r"RcDoc(::<[^>]*>)?::as_string$", callee(n) or "") and n.get("args") \
                    and strip_ty(n["args"][0].get("ty") or (n.get("ga") or [""])[0]).endswith("internal::Label"):
                site = "RcDoc::as_string"
            elif n.get("k") == "call" and re.search(r"RcDoc(::<[^>]*>)?::as_string$", callee(n) or "") \
                    and any(strip_ty(g).endswith("internal::Label") for g in (n.get("ga") or [])):
                site = "RcDoc::as_string"
            if site:
                ctx = fl.context(n)
                out.append(((ctx + ":" if ctx else "") + site, id(n) in guarded, f"{hh['span']['file']}:{n.get('ln')}"))
        for fc in fmt_calls(body):
            for ph in fc.placeholders():
                if ph.trait == "display" and strip_ty(ph.ty).endswith("internal::Label"):
                    ctx = fl.context(fc.node)
                    out.append(((ctx + ":" if ctx else "") + "{}", id(fc.node) in guarded, f"{hh['span']['file']}:{fc.ln}"))
        return out

    # ------------------------------------------------------------------------------------------------ R3
    def r3():
        model, info = lexer()
        interp = Interp(c)
        # numbers of any size: the text -> Int / Nat conversion may only fail when the arbitrary-precision parser fails; a machine-width
        # parse (str::parse::<i128>, from_str_radix on a primitive) whose failure becomes the function's error cuts the domain off
        for tname in ("Int", "Nat"):
            pf = c.fn(r"^candid::types::number::%s::parse$" % tname)
            chk.analysed(pf["key"])
            tries = [x for x in walk(pf["body"]) if x.get("k") == "call" and (callee(x) or "").endswith("Try::branch")]
            errs = [x for x in walk(pf["body"]) if x.get("k") == "ret"]
            srcs = set()
            for x in tries + errs:
                for y in walk(x):
                    if y.get("k") in ("call", "mcall"):
                        cal = callee(y) or ""
                        if re.search(r"(::parse$|from_str_radix$|from_utf8$|::try_from$|::try_into$|parse_bytes$|::from_str$)", cal):
                            srcs.add(cal)
            narrow = sorted(x for x in srcs if not re.search(r"(BigInt|BigUint|bigint::|biguint::|num_bigint|Num>?::)", x))
            chk.expect(bool(srcs) and not narrow, f"text-to-number:{tname}::parse:any-size",
                       f"candid::types::number::{tname}::parse can fail because of {narrow}: only the arbitrary-precision parser may decide that a "
                       f"digit string is not a number — printed values just above a machine width would no longer parse back",
                       where=f"{pf['span']['file']}:{pf['span']['lo']}", ok_detail=f"fails only through {sorted(x.rsplit('::', 2)[-2] + '::' + x.rsplit('::', 1)[-1] for x in srcs)}")
        # the blob shorthand of the abbreviating printer (Debug for IDLValue): an all-nat8 vector may be written `blob "…"`, but only a
        # non-empty one — `blob ""` re-reads as a Blob, which is not a value of `vec t` for any other t.  Decided by evaluating the Vec arm.
        dbg = [hh for k_, hh in c.hir.items() if re.search(r"impl core::fmt::Debug for candid::types::value::IDLValue>::fmt$", k_)]
        if len(dbg) != 1:
            raise AnchorMissing("Debug for IDLValue not found")
        chk.analysed(dbg[0]["key"])
        IVp = "candid::types::value::IDLValue::"
        from c11_util import Formatter as _Fm
        try:
            outs = {}
            for nm_, val_ in (("empty", ("enum", IVp + "Vec", [[]])),
                              ("nat8", ("enum", IVp + "Vec", [[("enum", IVp + "Nat8", [1]), ("enum", IVp + "Nat8", [65])]]))):
                fm_ = _Fm()
                Interp(c).call_fn(dbg[0], [val_, fm_])
                outs[nm_] = fm_.text()
            chk.expect(outs["empty"].startswith("vec") and "blob" not in outs["empty"], "debug-vec:empty-is-not-a-blob",
                       f"Debug for IDLValue prints an empty vector as {outs['empty']!r}: the blob shorthand is only sound for a non-empty vector of "
                       f"nat8 (the empty `blob \"\"` parses to a Blob and no longer annotates at `vec t`)",
                       where=f"{dbg[0]['span']['file']}:{dbg[0]['span']['lo']}", ok_detail=f"empty vector -> {outs['empty']!r}, nat8 vector -> {outs['nat8']!r}")
        except NotEvaluable as e_:
            raise AnchorMissing(f"Debug for IDLValue (Vec arm) is outside the evaluable fragment: {e_}")
        # parse_number removes exactly the digit separator the printers use
        pn = p.fn(r"token::parse_number$")
        chk.analysed(pn["key"])
        pinterp = Interp(p)

        class Slice:
            pass

        def lex_number(text):
            """tokens of a printed number; returns (sign, digits) if it is `sign? Decimal` else the token list"""
            try:
                toks = model.tokenize(text)
            except LexError as e:
                return e
            sign = ""
            if toks and toks[0][0] == "Sign":
                sign = toks[0][1]
                toks = toks[1:]
            if len(toks) == 1 and toks[0][0] == "Decimal":
                return sign, toks[0][1]
            if len(toks) == 1 and toks[0][0] == "Hex" and any(toks[0][1].startswith(hp) for hp in hex_prefixes):
                # parse_number strips the prefixes it knows; the grammar converts base 16 to decimal
                return sign, str(int(toks[0][1][2:].replace(sep, ""), 16))
            return [(sign, "Sign")] + toks if sign else toks

        # value of a Decimal token = the slice with the separators removed (parse_number): extract the filtered character
        seps = [lit_value(n["b"]) for n in walk(pn["body"]) if n.get("k") == "bin" and n.get("op") == "Ne"
                and isinstance(lit_value(n["b"]), str)]
        if len(seps) != 1:
            raise AnchorMissing(f"token::parse_number: expected one `c != '<sep>'` filter, found {seps}")
        sep = seps[0]
        chk.ok("parse_number:separator", f"parse_number drops {sep!r}")
        pref = [lit_value(n["args"][0]) for n in walk(pn["body"]) if n.get("k") == "mcall" and n["m"] == "starts_with"
                and isinstance(lit_value(n["args"][0]), str)]
        hex_prefixes = [x for x in pref if len(x) == 2]      # only a prefix parse_number strips is a readable hex literal

        h = c.fn(r"Debug for candid::types::value::IDLValue>::fmt$")
        chk.analysed(h["key"])
        m = the_match(h, r"IDLValue$", 20)
        fl = Flow(c, h)
        # PrimType::str_to_enum table
        s2e = p.fn(r"syntax::PrimType::str_to_enum$")
        chk.analysed(s2e["key"])
        prim_of = {}
        for n in nodes(s2e["body"], "if"):
            cond = unblock(n["c"])
            if cond.get("k") != "bin" or cond.get("op") != "Eq":
                continue
            names = [lit_value(x["recv"]) for x in walk(cond) if x.get("k") == "mcall" and x["m"] == "to_lowercase"]
            vs = [x["res"]["path"] for x in walk(n["t"]) if x.get("k") == "path" and (x.get("res") or {}).get("path", "").startswith("candid_parser::syntax::PrimType::")]
            if len(names) == 1 and isinstance(names[0], str) and len(vs) == 1:
                prim_of[names[0].lower()] = short(vs[0])
        chk.floor("PrimType::str_to_enum rows", len(prim_of), 17)
        annotated = set()
        seen_numeric = set()
        for r in arm_rows(m):
            heads = [hd[0] for hd in r["heads"] if isinstance(hd[0], str) and hd[0].startswith(IV)]
            if not heads:
                continue
            X = heads[0][len(IV):]
            fcs = fmt_calls(r["body"])
            tpl = "".join(fc.template() for fc in fcs)
            has_ann = any(re.search(r"\s:\s", lit) for fc in fcs for lit in fc.literals())
            if has_ann:
                for hd in heads:
                    annotated.add(hd[len(IV):])
            if X in NUMERIC_VARIANTS or X in ("Float32", "Float64", "Null", "Reserved"):
                if len(fcs) != 1:
                    chk.bad(f"annot:{X}", f"Debug for IDLValue::{X}: expected one template, found {len(fcs)}")
                    continue
                fc = fcs[0]
                lits = fc.literals()
                phs = fc.placeholders()
                tail = lits[-1] if lits and isinstance(fc.parts[-1], str) else ""
                mm = re.fullmatch(r"(.*?)\s*:\s*(\w+)", tail)
                where = f"{h['span']['file']}:{fc.ln}"
                if not mm:
                    chk.bad(f"annot:{X}", f"Debug for IDLValue::{X} prints {vis(fc.template())!r}: no ` : type` annotation, so the "
                                          f"re-parsed value is an untyped number", where)
                    continue
                tyname = mm.group(2)
                toks = model.tokenize(" : " + tyname)
                if [t[0] for t in toks] == ["Colon", "Id"]:
                    back = prim_of.get(tyname)
                elif [t[0] for t in toks] == ["Colon", "Null"]:
                    back = "Null"
                else:
                    back = None
                chk.expect(back == X, f"annot:{X}",
                           f"Debug for IDLValue::{X} annotates with `{tyname}`, which the lexer/PrimType::str_to_enum map to "
                           f"{back}, not {X}", where, ok_detail=f"` : {tyname}` -> PrimType::{back}")
            if X in NUMERIC_VARIANTS:
                seen_numeric.add(X)
                ph = phs[0] if len(phs) == 1 else None
                if ph is None:
                    chk.bad(f"number:{X}", f"Debug for IDLValue::{X}: expected one placeholder in {vis(fc.template())!r}")
                    continue
                check_number_placeholder(chk, c, interp, fl, lex_number, sep, f"number:{X}", X, NUMERIC_VARIANTS[X], r, ph, where)
        for X in sorted(set(NUMERIC_VARIANTS) - seen_numeric):
            chk.bad(f"number:{X}", f"Debug for IDLValue has no arm printing IDLValue::{X}")
        # booleans print as the Boolean token
        brow = [r for r in arm_rows(m) if any(hd[0] == IV + "Bool" for hd in r["heads"])]
        if len(brow) == 1:
            fcs = fmt_calls(brow[0]["body"])
            ok = len(fcs) == 1 and len(fcs[0].parts) == 1 and isinstance(fcs[0].parts[0], Placeholder) \
                and fcs[0].parts[0].trait == "display" and strip_ty(fcs[0].parts[0].ty) == "bool" \
                and all([t[0] for t in model.tokenize(w)] == ["Boolean"] for w in ("true", "false"))
            chk.expect(ok, "bool:Debug", f"Debug for IDLValue::Bool must print the bool with Display (`true`/`false`, the lexer's Boolean token); "
                                         f"found {fcs and vis(fcs[0].template())!r}", f"{h['span']['file']}:{brow[0]['ln']}",
                       ok_detail="`true`/`false` lex as Boolean")
        chk.assume("the grammar's value productions (NumLiteral = sign? decimal|hex|float, AnnVal = Arg ':' Typ, Name = id | text) are "
                   "as in grammar.lalrpop: the LR tables are not in the fact files, only the token shapes are checked")
        # number_to_string (Display path for floats, public helper): same table for integers
        nh = c.fn(r"pretty::candid::value::number_to_string$")
        chk.analysed(nh["key"])
        nm = the_match(nh, r"IDLValue$", 10)
        nfl = Flow(c, nh)
        for r in arm_rows(nm):
            heads = [hd[0] for hd in r["heads"] if isinstance(hd[0], str) and hd[0].startswith(IV)]
            for hd in heads:
                X = hd[len(IV):]
                if X in NUMERIC_VARIANTS:
                    names = [n_ for n_ in walk(r["pat"]) if n_.get("k") == "bind"]
                    if len(names) != 1:
                        continue
                    outs = []
                    try:
                        for v in samples_for(NUMERIC_VARIANTS[X]):
                            outs.append((v, eval_display(c, interp, r["body"], {names[0]["n"]: v})))
                    except NotEvaluable as e:
                        chk.bad(f"number_to_string:{X}", f"anchor moved: number_to_string arm for {X} is outside the evaluable fragment: {e}")
                        continue
                    bad = first_bad_number(outs, lex_number, sep)
                    chk.expect(bad is None, f"number_to_string:{X}",
                               f"number_to_string(IDLValue::{X}) prints {bad and bad[1]!r} for {bad and show_val(bad[0])}, which the "
                               f"lexer reads as {bad and bad[2]} instead of one (signed) decimal literal with the same digits",
                               f"{nh['span']['file']}:{r['ln']}", ok_detail=f"{len(outs)} sample values re-lex to the same digits")
                elif X in ("Float32", "Float64"):
                    names = [n_ for n_ in walk(r["pat"]) if n_.get("k") == "bind"]
                    if len(names) != 1:
                        continue
                    outs = []
                    try:
                        for v in (0.0, 1.0, -1.0, 42.0, -0.0, 1e21, 0.5, -2.25, 1234567.0):
                            outs.append((v, eval_display(c, interp, r["body"], {names[0]["n"]: v})))
                    except NotEvaluable as e:
                        chk.bad(f"float-form:{X}", f"anchor moved: number_to_string arm for {X} is outside the evaluable fragment: {e}")
                        continue
                    bad = None
                    for v, text in outs:
                        try:
                            toks = model.tokenize(text)
                        except LexError as e:
                            toks = e
                        kinds = [t[0] for t in toks] if isinstance(toks, list) else toks
                        want = (["Sign"] if text.startswith("-") else []) + ["Float"]
                        if kinds != want:
                            bad = (v, text, kinds)
                            break
                    chk.expect(bad is None, f"float-form:{X}",
                               f"number_to_string(IDLValue::{X}) prints {bad and bad[1]!r} for {bad and bad[0]}, which the lexer reads as "
                               f"{bad and bad[2]} instead of one (signed) Float token: an integer-looking text annotated `: float..` is a type "
                               f"mismatch on re-parse", f"{nh['span']['file']}:{r['ln']}",
                               ok_detail=f"{len(outs)} sample floats (integral and fractional) lex as one Float token")
        # labels printed as numbers (Display for Label, Id/Unnamed arm)
        lh = c.fn(LABEL_DISPLAY)
        lm = the_match(lh, r"Label$", 2)
        for r in arm_rows(lm):
            hs = [hd[0] for hd in r["heads"]]
            if all(isinstance(x, str) and x in (LB + "Id", LB + "Unnamed") for x in hs):
                names = {n_["n"] for n_ in walk(r["pat"]) if n_.get("k") == "bind"}
                if len(names) != 1:
                    raise AnchorMissing("Display for Label: Id/Unnamed arm does not bind one number")
                nmz = names.pop()
                outs = []
                try:
                    fparam = [q["n"] for q in lh["params"] if q.get("k") == "bind" and "Formatter" in (q.get("ty") or "")]
                    if len(fparam) != 1:
                        raise AnchorMissing("Display for Label: formatter parameter not found")
                    for v in samples_for("u32"):
                        fm = Formatter()
                        outs.append((v, eval_display(c, interp, r["body"], {nmz: v, fparam[0]: fm, "__formatter__": fm})))
                except NotEvaluable as e:
                    raise AnchorMissing(f"Display for Label (numeric arm) is outside the evaluable fragment: {e}")
                bad = first_bad_number(outs, lex_number, sep)
                if bad is None:
                    for v, t in outs:       # a field id must be an unsigned Decimal that fits u32 after removing separators
                        if not t or t[0] == "-":
                            bad = (v, t, "signed")
                chk.expect(bad is None, "number:Label::Id",
                           f"Display for Label prints the id {bad and bad[0]} as {bad and bad[1]!r}, which the lexer reads as {bad and bad[2]} "
                           f"instead of one decimal literal with the same digits", f"{lh['span']['file']}:{r['ln']}",
                           ok_detail=f"{len(outs)} sample ids re-lex to the same digits")
        # has_type_annotation covers every annotated variant; both `opt` printers parenthesise on it
        hh = c.fn(r"pretty::candid::value::has_type_annotation$")
        chk.analysed(hh["key"])
        en = c.item("enum", r"types::value::IDLValue$")
        arity = {v["name"]: len(v["fields"]) for v in en["variants"]}
        chk.floor("IDLValue variants printed with a type annotation", len(annotated), 14)
        OPAQUE = ("opaque",)
        for X in sorted(annotated):
            try:
                cov = interp.call_fn(hh, [("enum", IV + X, [OPAQUE] * arity.get(X, 0))])
            except NotEvaluable as e:
                raise AnchorMissing(f"has_type_annotation is outside the evaluable fragment: {e}")
            chk.expect(cov is True, f"has_type_annotation:{X}",
                       f"Debug prints IDLValue::{X} as `v : t` but has_type_annotation(IDLValue::{X}) is {cov}: `opt <{X.lower()} value>` is "
                       f"printed without parentheses and re-parses as `(opt v) : t`", f"{hh['span']['file']}:{hh['span']['lo']}",
                       ok_detail="covered")
        for fn_re, what in ((r"Debug for candid::types::value::IDLValue>::fmt$", "Debug"), (r"pretty::candid::value::pp_value$", "pp_value")):
            g = c.fn(fn_re)
            gm = the_match(g, r"IDLValue$", 5)
            rows = [r for r in arm_rows(gm) if any(hd[0] == IV + "Opt" for hd in r["heads"])]
            guarded = [r for r in rows if r["guard"] is not None
                       and (callee(unblock(r["guard"])) or "").endswith("value::has_type_annotation")]
            first_is_guarded = bool(rows) and bool(guarded) and rows[0] is guarded[0]
            paren = False
            if guarded:
                body = guarded[0]["body"]
                lits = [l for fc in fmt_calls(body) for l in fc.literals()] + \
                       [lit_value(a) for n in walk(body) if n.get("k") == "call" for a in n.get("args", []) if isinstance(lit_value(a), str)]
                paren = any("(" in l for l in lits) and any(")" in l for l in lits)
            chk.expect(first_is_guarded and paren, f"opt-parens:{what}",
                       f"{what}: the `Opt(v) if has_type_annotation(v)` arm must come first and wrap the payload in parentheses "
                       f"(found {len(rows)} Opt arm(s), guarded first: {first_is_guarded}, parentheses: {paren})",
                       f"{g['span']['file']}:{rows[0]['ln'] if rows else g['span']['lo']}", ok_detail="guarded arm first, parenthesised")

    # ------------------------------------------------------------------------------------------------ R4
    def r4():
        n = 0
        bad = 0
        for b in c.bodies.values():
            if not (b.key.startswith(VALUE_MOD) or re.search(LABEL_DISPLAY, b.key) or b.key.startswith("candid::pretty::utils::")
                    or b.key.startswith("candid::utils::pp_num_str")
                    or re.search(r"^candid::pretty::candid::(ident_string|needs_quote|is_keyword|is_valid_as_id|pp_text|pp_label|pp_label_raw)\b", b.key)):
                continue
            n += 1
            chk.analysed(b.key)
            sites = hash_iteration_sites(b)
            if sites:
                bad += 1
                chk.bad(f"hash-iter:{b.key}", f"{b.key} iterates a HashMap/HashSet ({sites[0][0]}): the printed text would depend on the hasher",
                        where=f"{b.span['file']}:{sites[0][1]}")
        if not bad:
            chk.ok("no-hash-iteration", f"{n} bodies (pretty::candid::value, the identifier quoter, pretty::utils, pp_num_str, Display for Label) contain no HashMap/HashSet iteration")
        chk.floor("printer bodies scanned for unordered iteration", n, 25)

    for rid, desc, fn in (("C11.R1", "escape forms of the value printers are decoded by the string sub-lexer to the same scalar in every context; no raw text sink", r1),
                          ("C11.R2", "identifier-shaped lexer tokens are in KEYWORDS; quoting chain intact; named labels never printed raw", r2),
                          ("C11.R3", "digit grouping, sign, `.0` and ` : type` annotations re-lex as one literal of the same type; opt parenthesises annotated values", r3),
                          ("C11.R4", "no unordered (hash) iteration in the value printers", r4)):
        if only and only != rid:
            continue
        chk.run_rule(rid, desc, fn)
    if only is None:
        import c12
        chk.include(c12, "C12.R3", "C11.R5", facts)     # record values: the grammar's positional numbering (also at the label 2^32-1) is what the printer's tuple shorthand assumes


# ============================================================================ helpers of R3
def show_val(v):
    return v.v if isinstance(v, Newtype) else v


def eval_display(c, interp, expr, env):
    """text printed for an expression that yields a string, or (for Display impls of newtypes) the formatter output"""
    fm = env.get("__formatter__")
    r = interp.ev(expr, env)
    if isinstance(r, tuple) and r and r[0] == "fmtargs":
        r = r[1]
    if fm is not None and isinstance(r, tuple) and r and r[0] == "Ok":
        r = fm.text()
    if not isinstance(r, str):
        raise NotEvaluable(f"expression evaluates to {type(r).__name__}, not text")
    return r


def display_of(c, interp, v, ty):
    """Display text of a sample value of type ty"""
    if isinstance(v, Newtype):
        hs = [h for k, h in c.hir.items() if re.fullmatch(r"<%s as core::fmt::Display>::fmt" % re.escape(ty), k)]
        if len(hs) != 1:
            raise NotEvaluable(f"Display impl of {ty} not found")
        f = Formatter()
        interp.call_fn(hs[0], [v, f])
        return f.text()
    if isinstance(v, bool):
        return "true" if v else "false"
    if isinstance(v, int):
        return str(v)
    raise NotEvaluable(f"Display of {type(v).__name__}")


def first_bad_number(outs, lex_number, sep):
    for v, text in outs:
        r = lex_number(text)
        want = show_val(v)
        if not (isinstance(r, tuple) and len(r) == 2 and isinstance(r[1], str)):
            return v, text, r
        sign, digits = r
        try:
            got = int((sign if sign == "-" else "") + digits.replace(sep, ""))
        except ValueError:
            return v, text, r
        if got != want:
            return v, text, f"the number {got}"
    return None


def check_number_placeholder(chk, c, interp, fl, lex_number, sep, key, X, ty, row, ph, where):
    names = [n_["n"] for n_ in walk(row["pat"]) if n_.get("k") == "bind"]
    if len(names) != 1:
        chk.bad(key, f"anchor moved: Debug arm for IDLValue::{X} does not bind exactly one payload")
        return
    samples = samples_for(ty)
    outs = []
    interp.scopes = fl.sc
    try:
        for v in samples:
            val = interp.ev(ph.expr, {names[0]: v})
            if isinstance(val, str):
                if ph.trait != "display" or not ph.plain():
                    raise NotEvaluable("formatted string placeholder")
                outs.append((v, val))
            elif isinstance(val, Newtype):
                if ph.trait != "display" or not ph.plain():
                    raise NotEvaluable("formatted newtype placeholder")
                outs.append((v, display_of(c, interp, val, ty)))
            else:
                outs.append((v, render_placeholder(ph, val)))
    except NotEvaluable as e:
        chk.bad(key, f"anchor moved: the number printed for IDLValue::{X} is outside the evaluable fragment: {e}", where)
        return
    finally:
        interp.scopes = None
    bad = first_bad_number(outs, lex_number, sep)
    chk.expect(bad is None, key,
               f"Debug for IDLValue::{X} prints {bad and bad[1]!r} for {bad and show_val(bad[0])}, which the lexer reads as "
               f"{bad and bad[2]} instead of one (signed) decimal literal with the same digits", where,
               ok_detail=f"{len(outs)} sample values re-lex to the same digits")
