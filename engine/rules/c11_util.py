"""Private helpers of C11/C12: a model of the logos lexers built from the `#[token]`/`#[regex]` attribute tables,
a decoder for the compiled `format_args!` templates found in the HIR, and small evaluators for printer conditions.

Nothing here runs candid code: the lexer model is an NFA simulation of the regexes in the derive-helper attributes
(longest match, logos priorities for ties), parametrised by the tables extracted from the facts."""
import re

from facts import AnchorMissing, callee, lit_value, nodes, pat_alternatives, pat_head, peel, short, unblock, walk


# ============================================================================ attribute strings
def _rust_string(s, i):
    """parse a Rust string literal starting at s[i] (`"..."`, `r"..."`, `r#"..."#`); return (value, index after)"""
    if s[i] == "r":
        j = i + 1
        hashes = 0
        while s[j] == "#":
            hashes += 1
            j += 1
        if s[j] != '"':
            raise AnchorMissing(f"not a raw string literal at {s[i:i + 20]!r}")
        end = s.find('"' + "#" * hashes, j + 1)
        if end < 0:
            raise AnchorMissing(f"unterminated raw string in attribute {s!r}")
        return s[j + 1:end], end + 1 + hashes
    if s[i] != '"':
        raise AnchorMissing(f"not a string literal at {s[i:i + 20]!r}")
    out = []
    j = i + 1
    while j < len(s):
        c = s[j]
        if c == '"':
            return "".join(out), j + 1
        if c == "\\":
            d = s[j + 1]
            if d in '\\"\'':
                out.append(d)
                j += 2
            elif d in "nrt0":
                out.append({"n": "\n", "r": "\r", "t": "\t", "0": "\0"}[d])
                j += 2
            elif d == "x":
                out.append(chr(int(s[j + 2:j + 4], 16)))
                j += 4
            elif d == "u":
                e = s.index("}", j)
                out.append(chr(int(s[j + 3:e].replace("_", ""), 16)))
                j = e + 1
            else:
                raise AnchorMissing(f"unknown escape \\{d} in attribute string {s!r}")
        else:
            out.append(c)
            j += 1
    raise AnchorMissing(f"unterminated string in attribute {s!r}")


def parse_logos_attr(a):
    """`#[token("x", priority = 3)]` -> ('token', 'x', 3) ; `#[regex(r"..", cb)]` -> ('regex', '..', None);
    `#[logos(skip r"..")]` -> ('skip', '..', None); anything else -> None"""
    m = re.match(r"#\[\s*(token|regex|logos)\s*\(\s*", a)
    if not m:
        return None
    kind = m.group(1)
    i = m.end()
    if kind == "logos":
        m2 = re.compile(r"skip\s+").match(a, i)
        if not m2:
            return None
        kind = "skip"
        i = m2.end()
    val, j = _rust_string(a, i)
    pm = re.search(r"priority\s*=\s*(\d+)", a[j:])
    return kind, val, int(pm.group(1)) if pm else None


# ============================================================================ regex -> NFA (subset used by logos)
class _Cls:
    """a set of code points: ranges + negation"""
    __slots__ = ("ranges", "neg")

    def __init__(self, ranges, neg=False):
        self.ranges = ranges
        self.neg = neg

    def has(self, ch):
        o = ord(ch)
        r = any(lo <= o <= hi for lo, hi in self.ranges)
        return r != self.neg


ANY_BUT_NL = _Cls([(10, 10)], True)
_ESC_CLASS = {"d": [(48, 57)], "w": [(48, 57), (65, 90), (97, 122), (95, 95)], "s": [(9, 13), (32, 32)]}
_ESC_CHAR = {"n": "\n", "r": "\r", "t": "\t", "0": "\0"}


class Regex:
    """AST: ('lit', ch) ('cls', _Cls) ('cat', [..]) ('alt', [..]) ('star', x) ('plus', x) ('opt', x) ('empty',)"""

    def __init__(self, src):
        self.src = src
        self.i = 0
        self.ast = self._alt()
        if self.i != len(src):
            raise AnchorMissing(f"regex {src!r}: unexpected {src[self.i]!r} at {self.i}")
        self._build()

    # ---- parser
    def _peek(self):
        return self.src[self.i] if self.i < len(self.src) else None

    def _alt(self):
        parts = [self._cat()]
        while self._peek() == "|":
            self.i += 1
            parts.append(self._cat())
        return parts[0] if len(parts) == 1 else ("alt", parts)

    def _cat(self):
        items = []
        while self._peek() is not None and self._peek() not in "|)":
            items.append(self._rep())
        if not items:
            return ("empty",)
        return items[0] if len(items) == 1 else ("cat", items)

    def _rep(self):
        a = self._atom()
        while self._peek() in ("*", "+", "?"):
            q = self.src[self.i]
            self.i += 1
            a = ({"*": "star", "+": "plus", "?": "opt"}[q], a)
        if self._peek() == "{":
            raise AnchorMissing(f"regex {self.src!r}: counted repetition is not supported by the lexer model")
        return a

    def _escape(self):
        """after a backslash: returns ('lit', ch) or ('cls', _Cls)"""
        d = self.src[self.i]
        self.i += 1
        if d in _ESC_CLASS:
            return ("cls", _Cls(list(_ESC_CLASS[d])))
        if d in _ESC_CHAR:
            return ("lit", _ESC_CHAR[d])
        if d == "x":
            v = int(self.src[self.i:self.i + 2], 16)
            self.i += 2
            return ("lit", chr(v))
        if d == "u":
            e = self.src.index("}", self.i)
            v = int(self.src[self.i + 1:e], 16)
            self.i = e + 1
            return ("lit", chr(v))
        if d.isalnum():
            raise AnchorMissing(f"regex {self.src!r}: escape \\{d} is not supported by the lexer model")
        return ("lit", d)

    def _atom(self):
        c = self.src[self.i]
        self.i += 1
        if c == "(":
            if self.src.startswith("?:", self.i):
                self.i += 2
            elif self._peek() == "?":
                raise AnchorMissing(f"regex {self.src!r}: group flags are not supported by the lexer model")
            a = self._alt()
            if self._peek() != ")":
                raise AnchorMissing(f"regex {self.src!r}: unbalanced group")
            self.i += 1
            return a
        if c == "[":
            return self._class()
        if c == ".":
            return ("cls", ANY_BUT_NL)
        if c == "\\":
            return self._escape()
        if c in "^$":
            raise AnchorMissing(f"regex {self.src!r}: anchors are not supported by the lexer model")
        return ("lit", c)

    def _class(self):
        neg = False
        if self._peek() == "^":
            neg = True
            self.i += 1
        ranges = []
        first = True
        while True:
            c = self._peek()
            if c is None:
                raise AnchorMissing(f"regex {self.src!r}: unterminated class")
            if c == "]" and not first:
                self.i += 1
                break
            first = False
            self.i += 1
            if c == "\\":
                k, v = self._escape()
                if k == "cls":
                    ranges.extend(v.ranges)
                    continue
                c = v
            if c == "[" and self._peek() == ":":
                raise AnchorMissing(f"regex {self.src!r}: posix classes are not supported by the lexer model")
            if self._peek() == "-" and self.i + 1 < len(self.src) and self.src[self.i + 1] != "]":
                self.i += 1
                hi = self.src[self.i]
                self.i += 1
                if hi == "\\":
                    k, hi = self._escape()
                    if k != "lit":
                        raise AnchorMissing(f"regex {self.src!r}: bad range")
                ranges.append((ord(c), ord(hi)))
            else:
                ranges.append((ord(c), ord(c)))
        return ("cls", _Cls(ranges, neg))

    # ---- logos 0.14 priority (Mir::priority): 2 per literal char, 2 per class, sum over concatenation,
    #      min over alternatives, 0 for `*` and `?`, `x+` = x x*
    @staticmethod
    def _prio(a):
        k = a[0]
        if k == "lit":
            return 2
        if k == "cls":
            return 2
        if k == "cat":
            return sum(Regex._prio(x) for x in a[1])
        if k == "alt":
            return min(Regex._prio(x) for x in a[1])
        if k == "plus":
            return Regex._prio(a[1])
        return 0

    def priority(self):
        return self._prio(self.ast)

    # ---- Thompson NFA
    def _build(self):
        self._cl_cache = {}
        self._tr_cache = {}
        self.eps = []    # state -> [state]
        self.step = []   # state -> [(matcher, state)]

        def new():
            self.eps.append([])
            self.step.append([])
            return len(self.eps) - 1

        def go(a):
            k = a[0]
            s, e = new(), new()
            if k == "empty":
                self.eps[s].append(e)
            elif k == "lit":
                ch = a[1]
                self.step[s].append((lambda x, ch=ch: x == ch, e))
            elif k == "cls":
                self.step[s].append((a[1].has, e))
            elif k == "cat":
                cur = s
                for x in a[1]:
                    xs, xe = go(x)
                    self.eps[cur].append(xs)
                    cur = xe
                self.eps[cur].append(e)
            elif k == "alt":
                for x in a[1]:
                    xs, xe = go(x)
                    self.eps[s].append(xs)
                    self.eps[xe].append(e)
            elif k in ("star", "plus", "opt"):
                xs, xe = go(a[1])
                self.eps[s].append(xs)
                self.eps[xe].append(e)
                if k in ("star", "opt"):
                    self.eps[s].append(e)
                if k in ("star", "plus"):
                    self.eps[xe].append(xs)
            return s, e

        self.start, self.accept = go(self.ast)

    def _closure(self, states):
        key = frozenset(states)
        hit = self._cl_cache.get(key)
        if hit is not None:
            return hit
        seen = self._closure_raw(states)
        self._cl_cache[key] = seen
        return seen

    def _closure_raw(self, states):
        seen = set(states)
        stack = list(states)
        while stack:
            s = stack.pop()
            for t in self.eps[s]:
                if t not in seen:
                    seen.add(t)
                    stack.append(t)
        return frozenset(seen)

    def _move(self, cur, ch):
        """lazily built DFA transition"""
        key = (cur, ch)
        hit = self._tr_cache.get(key)
        if hit is not None:
            return hit
        nxt = set()
        for s in cur:
            for m, t in self.step[s]:
                if m(ch):
                    nxt.add(t)
        res = self._closure(nxt) if nxt else frozenset()
        self._tr_cache[key] = res
        return res

    def longest(self, text, pos=0):
        """length of the longest match starting at pos, or -1"""
        cur = self._closure({self.start})
        best = 0 if self.accept in cur else -1
        i = pos
        while cur and i < len(text):
            cur = self._move(cur, text[i])
            if not cur:
                break
            i += 1
            if self.accept in cur:
                best = i - pos
        return best

    def fullmatch(self, text):
        return self.longest(text, 0) == len(text)


# ============================================================================ logos lexer model
class Logos:
    """one `#[derive(Logos)]` enum: rules [(variant, kind, pattern, Regex|None, priority)], optional skip regex"""

    def __init__(self, attr_item):
        self.path = attr_item["path"]
        self.rules = []
        self.skip = None
        for a in attr_item.get("attrs", []):
            p = parse_logos_attr(a)
            if p and p[0] == "skip":
                self.skip = Regex(p[1])
        for v in attr_item["variants"]:
            for a in v["attrs"]:
                p = parse_logos_attr(a)
                if not p or p[0] == "skip":
                    continue
                kind, pat, prio = p
                if kind == "token":
                    self.rules.append((v["name"], "token", pat, None, prio if prio is not None else 2 * len(pat)))
                else:
                    rx = Regex(pat)
                    self.rules.append((v["name"], "regex", pat, rx, prio if prio is not None else rx.priority()))
        if not self.rules:
            raise AnchorMissing(f"{self.path}: no #[token]/#[regex] attributes found")

    def tokens(self):
        return {pat: name for name, kind, pat, _, _ in self.rules if kind == "token"}

    def regexes(self, variant):
        return [pat for name, kind, pat, _, _ in self.rules if kind == "regex" and name == variant]

    def next(self, text, pos):
        """(variant, length) of the rule logos picks at pos (longest match, then priority); None = lexing error"""
        best = None
        for name, kind, pat, rx, prio in self.rules:
            if kind == "token":
                n = len(pat) if text.startswith(pat, pos) else -1
            else:
                n = rx.longest(text, pos)
            if n <= 0:
                continue
            if best is None or (n, prio) > (best[1], best[2]):
                best = (name, n, prio)
        return None if best is None else (best[0], best[1])


class LexError(Exception):
    pass


class TokenizerModel:
    """candid_parser::token::Tokenizer: main lexer `Token`, string sub-lexer `Text`, comment sub-lexer `Comment`.
    `escapes` is the EscapeCharacter arm table extracted from Tokenizer::next ({'n': '\\n', ...})."""

    def __init__(self, token, text, comment, escapes, start_string="StartString", start_comment="StartComment",
                 line_comment="LineComment"):
        self.token = token
        self.text = text
        self.comment = comment
        self.escapes = escapes
        self.start_string = start_string
        self.start_comment = start_comment
        self.line_comment = line_comment

    def lex_string_body(self, s, pos=0):
        """decode a string body starting after the opening quote; returns (bytes, index after the closing quote)"""
        out = bytearray()
        while True:
            if pos >= len(s):
                raise LexError("Unclosed string")
            r = self.text.next(s, pos)
            if r is None:
                raise LexError(f"Unexpected string {s[pos:pos + 4]!r}")
            name, n = r
            sl = s[pos:pos + n]
            pos += n
            if name == "Text":
                out += sl.encode("utf-8")
            elif name == "EscapeCharacter":
                c = sl[1]
                if c not in self.escapes:
                    raise LexError(f"Unknown escape character {c!r}")
                out += self.escapes[c].encode("utf-8")
            elif name == "Codepoint":
                hx = sl[3:-1].replace("_", "")
                try:
                    v = int(hx, 16)
                    if v > 0x10FFFF or 0xD800 <= v <= 0xDFFF or v >= 1 << 32:
                        raise ValueError
                except ValueError:
                    raise LexError(f"Unicode escape out of range {hx}")
                out += chr(v).encode("utf-8")
            elif name == "Byte":
                out.append(int(sl[1:], 16))
            elif name == "EndString":
                return bytes(out), pos
            else:
                raise LexError(f"string sub-lexer produced unknown variant {name}")

    def lex_string(self, body):
        """decode `body` as it would appear between quotes: returns bytes; LexError if the lexer rejects it or the
        string ends before the whole body is consumed"""
        s = body + '"'
        out, pos = self.lex_string_body(s, 0)
        if pos != len(s):
            raise LexError(f"string ends early: {s[pos:]!r} left over")
        return out

    def tokenize(self, s):
        """list of (variant, payload): payload = decoded bytes for Text, the slice otherwise"""
        out = []
        pos = 0
        while pos < len(s):
            if self.token.skip is not None:
                n = self.token.skip.longest(s, pos)
                if n > 0:
                    pos += n
                    continue
            r = self.token.next(s, pos)
            if r is None:
                raise LexError(f"Unknown token at {s[pos:pos + 8]!r}")
            name, n = r
            sl = s[pos:pos + n]
            pos += n
            if name == self.line_comment:
                continue
            if name == self.start_comment:
                depth = 1
                while depth:
                    if pos >= len(s):
                        raise LexError("Unclosed comment")
                    r = self.comment.next(s, pos)
                    if r is None:
                        pos += 1
                        continue
                    pos += r[1]
                    depth += 1 if r[0] == "Start" else -1
                continue
            if name == self.start_string:
                b, pos = self.lex_string_body(s, pos)
                out.append(("Text", b))
                continue
            out.append((name, sl))
        return out


# ============================================================================ format_args! templates
class Placeholder:
    def __init__(self, index, flags=None, width=None, precision=None):
        self.index = index
        self.flags = flags
        self.width = width
        self.precision = precision
        self.trait = None     # display | debug | lower_hex | ...
        self.ty = None        # type of the formatted value (generic argument of Argument::new_*)
        self.expr = None      # the argument expression (reference stripped)

    @property
    def zero_pad(self):
        return bool(self.flags is not None and self.flags & (1 << 24))

    @property
    def alternate(self):
        return bool(self.flags is not None and self.flags & (1 << 23))

    def plain(self):
        return self.flags is None and self.width is None and self.precision is None

    def __repr__(self):
        return f"{{{self.index}:{self.trait}:{self.ty}}}"


def decode_template(bs):
    """core::fmt::Arguments template bytes -> list of str | Placeholder (encoding of rustc >= 1.93)"""
    out = []
    i = 0
    arg = 0
    bs = bytes(bs)
    while True:
        if i >= len(bs):
            raise AnchorMissing("format template without terminator: the fmt::Arguments encoding changed")
        n = bs[i]
        i += 1
        if n == 0:
            break
        if n < 0x80:
            out.append(bs[i:i + n].decode("utf-8"))
            i += n
        elif n == 0x80:
            ln = bs[i] | (bs[i + 1] << 8)
            i += 2
            out.append(bs[i:i + ln].decode("utf-8"))
            i += ln
        elif n >= 0xC0:
            flags = width = prec = None
            if n & 1:
                flags = int.from_bytes(bs[i:i + 4], "little")
                i += 4
            if n & 2:
                width = int.from_bytes(bs[i:i + 2], "little")
                i += 2
            if n & 4:
                prec = int.from_bytes(bs[i:i + 2], "little")
                i += 2
            if n & 8:
                arg = int.from_bytes(bs[i:i + 2], "little")
                i += 2
            if n & 0x30:
                raise AnchorMissing("format template with indirect width/precision is not supported")
            out.append(Placeholder(arg, flags, width, prec))
            arg += 1
        else:
            raise AnchorMissing(f"unknown format template byte {n:#x}: the fmt::Arguments encoding changed")
    # merge adjacent literal pieces
    merged = []
    for p in out:
        if isinstance(p, str) and merged and isinstance(merged[-1], str):
            merged[-1] += p
        else:
            merged.append(p)
    return merged


class FmtCall:
    """one expanded format_args!: parts = [str | Placeholder], node = the enclosing expression"""

    def __init__(self, parts, node, ln=None, mac=None):
        self.parts = parts
        self.node = node
        self.ln = ln
        self.mac = mac or []

    def template(self):
        return "".join(p if isinstance(p, str) else "{" + (p.trait or "?") + "}" for p in self.parts)

    def literals(self):
        return [p for p in self.parts if isinstance(p, str)]

    def placeholders(self):
        return [p for p in self.parts if isinstance(p, Placeholder)]


def _strip_ref(e):
    while isinstance(e, dict) and e.get("k") == "ref":
        e = e["e"]
    return e


def _fmt_block(n):
    """FmtCall if block node n is an expanded format_args! with arguments, else None"""
    if n.get("k") != "block":
        return None
    st = n.get("stmts") or []
    tail = unblock(n.get("e")) if n.get("e") else None
    if isinstance(tail, dict) and tail.get("k") == "block":
        tail = unblock(tail.get("e")) if not tail.get("stmts") and tail.get("e") else None
    if not (len(st) == 2 and isinstance(tail, dict) and tail.get("k") == "call"
            and re.search(r"fmt::Arguments(::<[^>]*>)?::new$", callee(tail) or "")
            and all(x.get("k") == "slet" for x in st)):
        return None
    tup, arr = st[0].get("init"), st[1].get("init")
    if not (isinstance(tup, dict) and tup.get("k") == "tup" and isinstance(arr, dict) and arr.get("k") == "array"):
        raise AnchorMissing("format_args! expansion has an unexpected shape (args tuple / Argument array)")
    tb = tail["args"][0]
    v = (tb.get("v") or {}) if tb.get("k") == "lit" else {}
    if "bytes" not in v:
        raise AnchorMissing("format_args! template is not a byte-string literal")
    parts = decode_template(v["bytes"])
    argexprs = [_strip_ref(x) for x in tup["es"]]
    slots = []
    for a in arr["es"]:
        cal = callee(a) or ""
        m = re.search(r"Argument(?:::<[^>]*>)?::new_(\w+)$", cal)
        if not m:
            raise AnchorMissing(f"format_args! argument constructor not recognised: {cal}")
        fld = a["args"][0]
        if fld.get("k") != "field":
            raise AnchorMissing("format_args! argument does not select a field of the args tuple")
        slots.append((m.group(1), (a.get("ga") or [None])[0], argexprs[int(fld["n"])]))
    for p in parts:
        if isinstance(p, Placeholder):
            if p.index >= len(slots):
                raise AnchorMissing("format_args! placeholder index out of range")
            p.trait, p.ty, p.expr = slots[p.index]
    fc = FmtCall(parts, n, tail.get("ln"), tail.get("mac"))
    fc.tail = tail
    return fc


def _fmt_from_str(n):
    if n.get("k") == "call" and re.search(r"fmt::Arguments(::<[^>]*>)?::from_str$", callee(n) or ""):
        sv = lit_value(n["args"][0])
        if not isinstance(sv, str):
            raise AnchorMissing("Arguments::from_str with a non-literal argument")
        return FmtCall([sv] if sv else [], n, n.get("ln"), n.get("mac"))
    return None


def fmt_calls(node):
    """all expanded format_args! under node, in source order.
    Shapes: `Arguments::from_str(lit)` and `{ let args = (&a, &b); let args = [Argument::new_x(args.0), ..];
    unsafe { Arguments::new(template bytes, &args) } }`."""
    out = []
    consumed = set()
    for n in walk(node):
        fc = _fmt_block(n)
        if fc is not None:
            out.append(fc)
            consumed.add(id(fc.tail))
            continue
        fc = _fmt_from_str(n)
        if fc is not None:
            out.append(fc)
            continue
        if (n.get("k") == "call" and re.search(r"fmt::Arguments(::<[^>]*>)?::new", callee(n) or "")
                and id(n) not in consumed):
            raise AnchorMissing("format_args! expansion not recognised (Arguments::new outside the known block shape)")
    return out


def strip_ty(t):
    """`&&alloc::string::String` -> `alloc::string::String`"""
    t = (t or "").strip()
    while t.startswith("&"):
        t = t[1:].lstrip()
        if t.startswith("mut "):
            t = t[4:]
        t = re.sub(r"^'\w+\s+", "", t)
    return t


STR_TYPES = {"str", "alloc::string::String", "alloc::borrow::Cow<'_, str>", "char"}


def is_str_ty(t):
    t = strip_ty(t)
    return t in STR_TYPES or re.fullmatch(r"alloc::borrow::Cow<'\w+, str>", t) is not None


# ============================================================================ std escapers (published form sets)
STD_ESCAPERS = {
    # id -> (escapes ', escapes ", adds surrounding quote or None, non-printable-ASCII policy)
    "str::escape_debug": (True, True, None),
    "char::escape_debug": (True, True, None),
    "<str as Debug>": (False, True, '"'),
    "<char as Debug>": (True, False, "'"),
    "str::escape_default": (True, True, None),
    "char::escape_default": (True, True, None),
    "str::escape_unicode": (None, None, None),
    "char::escape_unicode": (None, None, None),
}


def std_escape_forms(kind, ch):
    r"""every rendering the std escaper `kind` can give one scalar (core::char::EscapeDebug / EscapeDefault /
    EscapeUnicode as documented): `\0 \t \r \n \\ \' \"`, `\u{hex}` (lower case, no padding) or the character itself.
    For non-ASCII scalars both the literal and the `\u{..}` form are returned (which one is used depends on the
    Unicode tables: printable / grapheme-extending)."""
    if kind not in STD_ESCAPERS:
        raise AnchorMissing(f"unknown std escaper {kind}")
    o = ord(ch)
    uni = "\\u{%x}" % o
    if kind.endswith("escape_unicode"):
        return [uni]
    single, double, _ = STD_ESCAPERS[kind]
    sp = {9: "\\t", 13: "\\r", 10: "\\n", 92: "\\\\"}
    if not kind.endswith("escape_default"):
        sp[0] = "\\0"
    if single:
        sp[39] = "\\'"
    if double:
        sp[34] = '\\"'
    if o in sp:
        return [sp[o]]
    if o < 0x20 or o == 0x7f:
        return [uni]
    if o < 0x7f:
        return [ch]
    if kind.endswith("escape_default"):
        return [uni]
    return [ch, uni]


def std_escape_one(kind, text):
    """single-valued model for interpreted code: only for scalars whose classification is certain"""
    out = []
    for ch in text:
        f = std_escape_forms(kind, ch)
        if len(f) > 1:
            if ch in "é€":                     # printable, not grapheme-extending
                f = [ch]
            elif ord(ch) in (0x80, 0x9f, 0x200b, 0xfeff, 0xe0001, 0x10ffff):    # Cc / Cf / unassigned
                f = [f[1]]
            else:
                raise NotEvaluable(f"std escaper on U+{ord(ch):04X}: classification not modelled")
        out.append(f[0])
    return "".join(out)


# ============================================================================ tiny interpreter for pure predicates
class NotEvaluable(Exception):
    pass


class _Return(Exception):
    def __init__(self, v):
        self.v = v


class _Break(Exception):
    pass


class RChar(str):
    """a Rust `char` (kept apart from one-character strings only for documentation)"""


def _ordv(x):
    return ord(x) if isinstance(x, str) and len(x) == 1 else x


_CHAR_PREDS = {
    "is_ascii_graphic": lambda x: 0x21 <= x <= 0x7e,
    "is_ascii_alphanumeric": lambda x: x < 128 and chr(x).isalnum(),
    "is_ascii_alphabetic": lambda x: x < 128 and chr(x).isalpha(),
    "is_ascii_digit": lambda x: 48 <= x <= 57,
    "is_ascii_hexdigit": lambda x: x < 128 and chr(x) in "0123456789abcdefABCDEF",
    "is_ascii_lowercase": lambda x: 97 <= x <= 122,
    "is_ascii_uppercase": lambda x: 65 <= x <= 90,
    "is_ascii_punctuation": lambda x: x < 128 and chr(x) in "!\"#$%&'()*+,-./:;<=>?@[\\]^_`{|}~",
    "is_ascii_control": lambda x: x < 32 or x == 127,
    "is_ascii_whitespace": lambda x: x in (9, 10, 12, 13, 32),
    "is_ascii": lambda x: x < 128,
    # Unicode predicates of `char`, decided from the general category where that decides them (Numeric = Nd|Nl|No; Alphabetic ⊇ L*|Nl,
    # and differs from it only on marks / symbols carrying Other_Alphabetic, which are refused as not evaluable)
    "is_numeric": lambda x: _ucat(x) in ("Nd", "Nl", "No"),
    "is_alphabetic": lambda x: _ualpha(x),
    "is_alphanumeric": lambda x: _ualpha(x) or _ucat(x) in ("Nd", "Nl", "No"),
    "is_control": lambda x: _ucat(x) == "Cc",
    "is_whitespace": lambda x: x in (9, 10, 11, 12, 13, 32, 0x85, 0xA0, 0x1680, 0x2028, 0x2029, 0x202F, 0x205F, 0x3000) or 0x2000 <= x <= 0x200A,
}


def _ucat(x):
    import unicodedata
    return unicodedata.category(chr(x))


def _ualpha(x):
    c = _ucat(x)
    if c[0] == "M" or c == "So":
        raise NotEvaluable(f"char::is_alphabetic on U+{x:04X} (category {c}: depends on Other_Alphabetic)")
    return c[0] == "L" or c == "Nl"


class Newtype:
    """a tuple struct with one field (candid Nat / Int around a big integer)"""

    def __init__(self, v):
        self.v = v


class StrBuf:
    """a mutable String (built with push / push_str / extend / +=)"""

    def __init__(self, s=""):
        self.s = s


def _plain(v):
    return v.s if isinstance(v, StrBuf) else v


class Formatter:
    """core::fmt::Formatter: collects what is written"""

    def __init__(self):
        self.out = []

    def text(self):
        return "".join(self.out)


def float_display(v):
    """Rust's Display for f32/f64 on the sample values used by the rules: no exponent, integral values without a
    fraction, `-0` for negative zero; other values only if Python's shortest repr has no exponent either"""
    if v != v or v in (float("inf"), float("-inf")):
        raise NotEvaluable("non-finite float")
    if v == int(v):
        import math
        return ("-" if math.copysign(1.0, v) < 0 else "") + str(abs(int(v)))
    r = repr(v)
    if "e" in r or "E" in r:
        raise NotEvaluable("float sample needs exponent-free rendering")
    return r


def render_placeholder(p, v):
    """text of one format placeholder for an evaluated value (integers, chars, strings, bools)"""
    if isinstance(v, Newtype):
        raise NotEvaluable("formatting a newtype needs its Display impl")
    if p.trait == "debug" and isinstance(v, str):
        if isinstance(v, RChar):
            return "'" + std_escape_one("<char as Debug>", v) + "'"
        return '"' + std_escape_one("<str as Debug>", v) + '"'
    if p.trait == "display":
        if isinstance(v, bool):
            t = "true" if v else "false"
        elif isinstance(v, (int, str)):
            t = str(v)
        elif isinstance(v, float):
            t = float_display(v)
        else:
            raise NotEvaluable(f"display of {type(v).__name__}")
    elif p.trait in ("lower_hex", "upper_hex"):
        if not isinstance(v, int) or isinstance(v, bool) or v < 0:
            raise NotEvaluable("hex of a non-integer")
        t = format(v, "x" if p.trait == "lower_hex" else "X")
        if p.alternate:
            t = "0x" + t
    else:
        raise NotEvaluable(f"format trait {p.trait}")
    if p.precision is not None:
        raise NotEvaluable("format precision")
    if p.width is not None and len(t) < p.width:
        if p.zero_pad and p.trait != "display" or (p.zero_pad and isinstance(v, int)):
            neg = t.startswith("-")
            digits = t[1:] if neg else t
            t = ("-" if neg else "") + digits.rjust(p.width - (1 if neg else 0), "0")
        else:
            fill = chr(p.flags & 0x1FFFFF) if p.flags is not None else " "
            align = ((p.flags >> 29) & 3) if p.flags is not None else 3
            if align == 3:
                align = 1 if isinstance(v, int) and not isinstance(v, bool) else 0
            pad = p.width - len(t)
            t = {0: t + fill * pad, 1: fill * pad + t, 2: fill * (pad // 2) + t + fill * (pad - pad // 2)}[align]
    return t


class Interp:
    """Evaluates HIR over ints, bools, chars, strings, lists and tuples: the fragment in which the printers' leaf
    helpers (`pp_char`, `is_valid_as_id`, `pp_num_str`, the argument expressions of format templates) are written.
    Calls into functions of the same crate are followed. Anything else raises NotEvaluable, which the rules report
    as a moved anchor. No candid code runs: this is constant evaluation of tables over sample inputs."""

    def __init__(self, crate=None, max_depth=8, extra_crates=()):
        self.crate = crate
        self.extra_crates = list(extra_crates)   # functions of these crates are followed too (e.g. candid's pretty::utils from candid_parser)
        self.scopes = None       # optional c11.Scopes of the function whose sub-expressions are evaluated
        self.depth = 0
        self.max_depth = max_depth
        self.overlay = {}        # locals re-assigned with `x = v` (see ev: assign)

    def call_fn(self, fn_hir, args):
        env = {}
        self.depth += 1
        if self.depth > self.max_depth:
            self.depth -= 1
            raise NotEvaluable("call depth")
        saved_overlay, self.overlay = self.overlay, {}
        try:
            return _plain(self._call_fn(fn_hir, args, env))
        finally:
            self.depth -= 1
            self.overlay = saved_overlay

    def _call_fn(self, fn_hir, args, env):
        if len(args) != len(fn_hir["params"]):
            raise NotEvaluable("arity")
        for p, a in zip(fn_hir["params"], args):
            self.bind(p, a, env)
        try:
            return self.ev(fn_hir["body"], env)
        except _Return as r:
            return r.v

    def bind(self, p, v, env):
        k = p.get("k")
        if k == "wild":
            return True
        if k == "bind":
            if p.get("sub") and not self.bind(p["sub"], v, env):
                return False
            env[p["n"]] = v
            self.overlay.pop(p["n"], None)       # a new binding of the name ends the life of an assigned value
            return True
        if k in ("ref", "deref"):
            return self.bind(p["sub"], v, env)
        if k == "tuple":
            if not isinstance(v, tuple) or len(v) != len(p["subs"]):
                raise NotEvaluable("tuple pattern")
            return all(self.bind(s, x, env) for s, x in zip(p["subs"], v))
        if k == "or":
            return any(self.bind(s, v, env) for s in p["subs"])
        if k == "lit":
            y = p.get("v") or {}
            for key in ("int", "char", "bool", "str"):
                if key in y:
                    return _ordv(y[key]) == _ordv(v)
            raise NotEvaluable("literal pattern")
        if k == "range":
            def val(q):
                if q is None:
                    return None
                y = (q.get("v") or (q.get("e") or {}).get("v")) if isinstance(q, dict) else None
                if not y:
                    raise NotEvaluable("range bound")
                return _ordv(y.get("int", y.get("char")))
            lo, hi = val(p.get("lo")), val(p.get("hi"))
            x = _ordv(v)
            if lo is not None and x < lo:
                return False
            if hi is not None and (x > hi if p.get("incl", True) else x >= hi):
                return False
            return True
        if k in ("ts", "struct", "path") and isinstance(v, tuple) and v and v[0] == "enum":
            path = (p.get("res") or {}).get("path", "")
            if path != v[1]:
                return False
            subs = (p.get("subs") or []) if k == "ts" else [f[1] for f in p.get("fields", [])] if k == "struct" else []
            if k == "ts" and p.get("dd") is not None:
                subs = []
            for s_, x in zip(subs, v[2]):
                if not self.bind(s_, x, env):
                    return False
            return True
        if k in ("ts", "struct"):
            path = (p.get("res") or {}).get("path", "")
            subs = p.get("subs") if k == "ts" else [f[1] for f in p.get("fields", [])]
            if path.endswith("Option::Some"):
                return v is not None and isinstance(v, tuple) and v[0] == "Some" and self.bind(subs[0], v[1], env)
            if path.endswith("Option::None"):
                return v is None
        if k == "path":
            path = (p.get("res") or {}).get("path", "")
            if path.endswith("Option::None"):
                return v is None
        if k == "slice" and isinstance(v, list):
            pre, post, mid = p.get("pre") or [], p.get("post") or [], p.get("mid")
            if (mid is None and len(v) != len(pre) + len(post)) or len(v) < len(pre) + len(post):
                return False
            if not all(self.bind(s_, x, env) for s_, x in zip(pre, v)):
                return False
            if post and not all(self.bind(s_, x, env) for s_, x in zip(post, v[len(v) - len(post):])):
                return False
            if isinstance(mid, dict):
                return self.bind(mid, v[len(pre):len(v) - len(post)], env)
            return True
        if k == "struct" and isinstance(v, tuple) and len(v) == 2 and v[0] == "struct":
            for fname, fpat in p.get("fields", []):
                if fname not in v[1] or not self.bind(fpat, v[1][fname], env):
                    return False
            return True
        raise NotEvaluable(f"pattern {k}")

    def ev(self, e, env):
        k = e.get("k")
        if k == "lit":
            v = e.get("v") or {}
            for key in ("int", "bool", "str"):
                if key in v:
                    return v[key]
            if "char" in v:
                return RChar(v["char"])
            raise NotEvaluable(f"literal {v}")
        if k == "path":
            r = e.get("res") or {}
            if r.get("kind") == "Local":
                if r.get("path") in self.overlay:
                    return self.overlay[r["path"]]
                if r.get("path") in env:
                    return env[r["path"]]
                b = self.scopes.use.get(id(e)) if self.scopes is not None else None
                if b and b.get("init") is not None:      # a `let` of the enclosing function, outside the evaluated expression
                    return self.ev(b["init"], env)
            if r.get("kind") in ("Const", "Static", "AssocConst") and self.crate is not None and r.get("path") in self.crate.hir:
                # a constant / static of the crate: its initialiser, evaluated once
                memo = self.__dict__.setdefault("_consts", {})
                if r["path"] not in memo:
                    memo[r["path"]] = self.ev(self.crate.hir[r["path"]]["body"], {})
                return memo[r["path"]]
            if (r.get("path") or "").endswith("option::Option::None"):
                return None
            raise NotEvaluable(f"path {r.get('path')}")
        if k == "ref":
            return self.ev(e["e"], env)
        if k == "cast":
            v = self.ev(e["e"], env)
            ty = e.get("ty") or ""
            if ty == "char" and isinstance(v, int) and not isinstance(v, bool):
                return RChar(chr(v))
            if isinstance(v, RChar) and ty != "char":
                return ord(v)
            if isinstance(v, float) and re.fullmatch(r"[iu](8|16|32|64|128|size)", ty):
                return int(v)
            if isinstance(v, int) and not isinstance(v, bool) and ty in ("f32", "f64"):
                return float(v)
            return v
        if k == "un":
            a = self.ev(e["a"], env)
            if e["op"] == "Not":
                return not a
            if e["op"] == "Deref":
                return a
            if e["op"] == "Neg":
                return -a
        if k == "bin":
            op = e["op"]
            if op == "And":
                return bool(self.ev(e["a"], env)) and bool(self.ev(e["b"], env))
            if op == "Or":
                return bool(self.ev(e["a"], env)) or bool(self.ev(e["b"], env))
            a, b = _plain(self.ev(e["a"], env)), _plain(self.ev(e["b"], env))
            if isinstance(a, str) and isinstance(b, str) and op in ("Eq", "Ne"):
                return (a == b) if op == "Eq" else (a != b)
            if isinstance(a, str) and isinstance(b, str) and op == "Add" and not isinstance(a, RChar):
                return a + b
            a, b = _ordv(a), _ordv(b)
            table = {"Eq": lambda: a == b, "Ne": lambda: a != b, "Lt": lambda: a < b, "Le": lambda: a <= b,
                     "Gt": lambda: a > b, "Ge": lambda: a >= b, "Add": lambda: a + b, "Sub": lambda: a - b, "Mul": lambda: a * b}
            if op in table:
                return table[op]()
            if op in ("Div", "Rem") and isinstance(a, int) and isinstance(b, int) and not isinstance(a, bool) and b != 0 and a >= 0 and b > 0:
                return a // b if op == "Div" else a % b          # unsigned operands: Rust's truncating division agrees with floor
            raise NotEvaluable(f"operator {op}")
        if k == "block":
            fc = _fmt_block(e)
            if fc is not None:
                return ("fmtargs", "".join(x if isinstance(x, str) else render_placeholder(x, _plain(self.ev(x.expr, env)))
                                           for x in fc.parts))
            env2 = dict(env)
            for s in e.get("stmts") or []:
                if s.get("k") == "slet":
                    if s.get("init") is None:
                        raise NotEvaluable("let without initialiser")
                    if s.get("els"):
                        if not self.bind(s["pat"], self.ev(s["init"], env2), env2):
                            self.ev(s["els"], env2)          # diverges (return / break / continue)
                            raise NotEvaluable("let-else whose else block does not diverge")
                        continue
                    self.bind(s["pat"], self.ev(s["init"], env2), env2)
                elif s.get("k") == "semi":
                    self.ev(s["e"], env2)
                else:
                    self.ev(s, env2)
            return self.ev(e["e"], env2) if e.get("e") else None
        if k == "if":
            if self.ev(e["c"], env):
                return self.ev(e["t"], env)
            return self.ev(e["e"], env) if e.get("e") else None
        if k == "let":          # `if let P = e` / `while let`: a boolean whose bindings are visible in the guarded branch
            return self.bind(e["pat"], _plain(self.ev(e["init"], env)), env)
        if k == "ret":
            raise _Return(self.ev(e["e"], env) if e.get("e") else None)
        if k == "break":
            raise _Break()
        if k == "tup":
            return tuple(self.ev(x, env) for x in e["es"])
        if k == "array":
            return [self.ev(x, env) for x in e["es"]]
        if k == "closure":
            return ("closure", e, dict(env))
        if k == "match":
            if e.get("src") == "ForLoopDesugar":
                return self.for_loop(e, env)
            if e.get("src") == "TryDesugar":
                v = self.ev(e["scrut"], env)
                if isinstance(v, tuple) and v and v[0] == "Ok":
                    return v[1]
                if isinstance(v, tuple) and v and v[0] == "Some":
                    return v[1]
                raise NotEvaluable("`?` on a failing value")
            v = self.ev(e["scrut"], env)
            for a in e["arms"]:
                env2 = dict(env)
                if self.bind(a["pat"], v, env2) and (a.get("guard") is None or self.ev(a["guard"], env2)):
                    return self.ev(a["body"], env2)
            raise NotEvaluable("no arm matched")
        if k == "call":
            c = callee(e) or ""
            args = [self.ev(a, env) for a in e["args"]]
            if re.search(r"RangeInclusive(::<[^>]*>)?::new$", c):
                return ("range", _ordv(args[0]), _ordv(args[1]) + 1)
            if c.endswith("Option::Some"):
                return ("Some", args[0])
            if c.endswith("hint::must_use"):
                return args[0]
            if c.endswith("alloc::fmt::format") and isinstance(args[0], tuple) and args[0][0] == "fmtargs":
                return args[0][1]
            if re.search(r"fmt::Arguments(::<[^>]*>)?::from_str$", c):
                return ("fmtargs", args[0])
            if c.endswith("core::char::from_u32") or c.endswith("char::methods::<impl char>::from_u32"):
                v = args[0]
                return ("Some", RChar(chr(v))) if 0 <= v <= 0x10FFFF and not 0xD800 <= v <= 0xDFFF else None
            if re.search(r"Vec(::<[^>]*>)?::(new|with_capacity)$", c):
                return []
            if re.search(r"string::String::(new|with_capacity)$", c):
                return StrBuf()
            if re.search(r"string::String::from$|<alloc::string::String as core::convert::From<&str>>::from$", c) and len(args) == 1 \
                    and isinstance(args[0], str):
                return StrBuf(args[0])
            if c.endswith("from_utf8_lossy") or c.endswith("str::from_utf8_unchecked"):
                return bytes(args[0]).decode("utf-8", "replace")
            if c.endswith("Try::branch"):
                return args[0]
            if c.endswith("core::convert::From::from") and len(args) == 1 and isinstance(_plain(args[0]), int) and not isinstance(_plain(args[0]), bool):
                tgt = strip_ty(e.get("ty")) if e.get("ty") else ""
                if tgt == "char" and 0 <= _ordv(args[0]) <= 0x10FFFF:
                    return RChar(chr(_ordv(args[0])))
                if re.fullmatch(r"[ui](8|16|32|64|128|size)", tgt or ""):
                    return _ordv(args[0])
            if c.endswith("Result::Ok"):
                return ("Ok", args[0])
            if self.crate is not None and c in self.crate.hir and self.crate.hir[c].get("kind") in ("Fn", "AssocFn"):
                return self.call_fn(self.crate.hir[c], args)
            for xc in self.extra_crates:
                if c in xc.hir and xc.hir[c].get("kind") in ("Fn", "AssocFn"):
                    saved, self.crate = self.crate, xc
                    try:
                        return self.call_fn(xc.hir[c], args)
                    finally:
                        self.crate = saved
            # pretty-printer documents are modelled by the text they render to on one line (text / as_string / append)
            if re.search(r"^pretty::(RcDoc|Doc|BoxDoc)::<[^>]*>::(text|as_string)$", c) and len(args) == 1 and isinstance(_plain(args[0]), (str, int)):
                return str(_plain(args[0]))
            if re.search(r"^pretty::(RcDoc|Doc|BoxDoc)::<[^>]*>::nil$", c) and not args:
                return ""
            cinfo = e.get("callee") if isinstance(e.get("callee"), dict) else {}
            if cinfo.get("ctor") and cinfo.get("kind") == "Variant" and not c.startswith("core::"):
                return ("enum", c, [_plain(a) for a in args])         # a user enum's tuple-variant constructor
            raise NotEvaluable(f"call {c}")
        if k == "struct":
            path = (e.get("res") or {}).get("path", "")
            f = dict((n, v) for n, v in e["fields"])
            if path.endswith("ops::range::Range"):
                return ("range", _ordv(self.ev(f["start"], env)), _ordv(self.ev(f["end"], env)))
            if path.endswith("ops::range::RangeFrom"):
                return ("range", _ordv(self.ev(f["start"], env)), None)
            if path.endswith("ops::range::RangeTo"):
                return ("range", 0, _ordv(self.ev(f["end"], env)))
            raise NotEvaluable(f"struct {path}")
        if k == "mcall":
            return self.method(e, env)
        if k == "field":
            b = self.ev(e["e"], env)
            if isinstance(b, Newtype) and e["n"] == "0":
                return b.v
            if isinstance(b, tuple) and len(b) == 2 and b[0] == "struct" and e["n"] in b[1]:
                return b[1][e["n"]]
            if isinstance(b, tuple) and e["n"].isdigit() and not (b and isinstance(b[0], str) and b[0] in ("Some", "Ok", "range", "closure", "fmtargs")):
                return b[int(e["n"])]
            raise NotEvaluable(f"field {e['n']}")
        if k == "index":
            a = self.ev(e["a"], env)
            i = self.ev(e["b"], env)
            if isinstance(a, str) and isinstance(i, tuple) and i and i[0] == "range":
                return a.encode("utf-8")[i[1]:i[2]].decode("utf-8")      # Rust slices strings by byte offsets
            if isinstance(a, list):
                if isinstance(i, int):
                    return a[i]
                if isinstance(i, tuple) and i and i[0] == "range":
                    return a[i[1]:i[2]]
            raise NotEvaluable("index")
        if k == "semi":
            return self.ev(e["e"], env)
        if k in ("assign", "assignop"):
            tgt = unblock(e["a"])
            if not (tgt.get("k") == "path" and (tgt.get("res") or {}).get("kind") == "Local" and tgt["res"]["path"] in env):
                raise NotEvaluable("assignment to a non-local")
            nm = tgt["res"]["path"]
            val = _plain(self.ev(e["b"], env))
            if k == "assign":
                # environments are copied per block, so a plain `x = v` is kept in an overlay that shadows x until x is bound again
                self.overlay[nm] = val
                return None
            if isinstance(env[nm] if nm not in self.overlay else self.overlay[nm], int) and isinstance(val, int) \
                    and str(e.get("op") or "").replace("Assign", "") in ("Add", "Sub", "Mul"):
                cur0 = self.overlay.get(nm, env[nm])
                op0 = str(e.get("op")).replace("Assign", "")
                self.overlay[nm] = cur0 + val if op0 == "Add" else cur0 - val if op0 == "Sub" else cur0 * val
                return None
            op = str(e.get("op") or "")
            cur = env[nm]
            if isinstance(cur, StrBuf) and op.startswith("Add") and isinstance(val, str):
                cur.s += val
                return None
            raise NotEvaluable(f"compound assignment {op}")
        raise NotEvaluable(f"expression kind {k}")

    def for_loop(self, e, env):
        sc = e["scrut"]
        if not (sc.get("k") == "call" and (callee(sc) or "").endswith("into_iter")):
            raise NotEvaluable("for-loop shape")
        items = _plain(self.ev(sc["args"][0], env))
        if isinstance(items, str) and not isinstance(items, RChar):
            items = [RChar(ch) for ch in items]          # an iterator of chars (e.g. char::escape_debug)
        if not isinstance(items, list):
            raise NotEvaluable("for-loop over a non-list")
        inner = None
        for n in walk(e["arms"][0]["body"]):
            if n.get("k") == "match" and n.get("src") == "ForLoopDesugar":
                inner = n
                break
        if inner is None:
            raise NotEvaluable("for-loop shape")
        some = [a for a in inner["arms"] if a["pat"].get("k") in ("ts", "struct") and (a["pat"].get("res") or {}).get("path", "").endswith("Some")]
        if len(some) != 1:
            raise NotEvaluable("for-loop shape")
        pat = some[0]["pat"]
        sub = pat["subs"][0] if pat.get("k") == "ts" else pat["fields"][0][1]
        for it in items:
            env2 = dict(env)
            self.bind(sub, it, env2)
            try:
                self.ev(some[0]["body"], env2)
            except _Break:
                break
        return None

    def apply(self, f, *args):
        if not (isinstance(f, tuple) and f and f[0] == "closure"):
            raise NotEvaluable("not a closure")
        _, c, cenv = f
        env = dict(cenv)
        for p, a in zip(c["params"], args):
            self.bind(p, a, env)
        try:
            return self.ev(c["body"], env)
        except _Return as r:
            return r.v

    def method(self, e, env):
        m = e["m"]
        recv = self.ev(e["recv"], env)
        args = [_plain(self.ev(a, env)) for a in e["args"]]
        if isinstance(recv, int) and not isinstance(recv, bool) and m in ("wrapping_mul", "wrapping_add", "wrapping_sub") \
                and args and isinstance(args[0], int):
            mm = re.search(r"([ui])(8|16|32|64|128)$", e.get("recv_ty") or "")
            if not mm:
                raise NotEvaluable(f"{m} on an integer of unknown width ({e.get('recv_ty')})")
            bits = int(mm.group(2))
            v = {"wrapping_mul": recv * args[0], "wrapping_add": recv + args[0], "wrapping_sub": recv - args[0]}[m] % (1 << bits)
            if mm.group(1) == "i" and v >= 1 << (bits - 1):
                v -= 1 << bits
            return v
        if isinstance(recv, list) and m == "fold" and len(args) == 2:
            acc = args[0]
            for x in recv:
                acc = self.apply(args[1], acc, x)
            return acc
        if isinstance(recv, StrBuf):
            if m == "push" and isinstance(args[0], str):
                recv.s += args[0]
                return None
            if m == "push_str" and isinstance(args[0], str):
                recv.s += args[0]
                return None
            if m == "extend" and isinstance(args[0], (str, list)):
                recv.s += args[0] if isinstance(args[0], str) else "".join(args[0])
                return None
            if m in ("write_str", "write_char") and isinstance(args[0], str):
                recv.s += args[0]
                return ("Ok", None)
            if m == "write_fmt" and isinstance(args[0], tuple) and args[0][0] == "fmtargs":
                recv.s += args[0][1]
                return ("Ok", None)
            if m == "clear":
                recv.s = ""
                return None
            recv = recv.s
        if isinstance(recv, tuple) and len(recv) == 2 and recv[0] == "lexer" and m == "slice" and not args:
            return recv[1]             # logos::Lexer::slice(): the lexeme (model used when a token callback is evaluated)
        if m == "append" and isinstance(recv, str) and re.search(r"^pretty::(RcDoc|Doc|BoxDoc)::", e.get("callee") or "") \
                and len(args) == 1 and isinstance(args[0], str):
            return recv + args[0]
        if isinstance(recv, tuple) and len(recv) == 3 and recv[0] == "enum" and m == "get_id" \
                and recv[1].endswith(("internal::Label::Id", "internal::Label::Unnamed")):
            return recv[2][0]          # Label::get_id of a numeric label is the number itself
        if isinstance(recv, Formatter):
            if m in ("write_str", "write_char"):
                recv.out.append(args[0])
                return ("Ok", None)
            if m == "write_fmt" and isinstance(args[0], tuple) and args[0][0] == "fmtargs":
                recv.out.append(args[0][1])
                return ("Ok", None)
            raise NotEvaluable(f"Formatter::{m}")
        if isinstance(recv, Newtype) and m == "to_string":
            ty = strip_ty(e.get("recv_ty"))
            hs = [h for k, h in (self.crate.hir.items() if self.crate else []) if k == f"<{ty} as core::fmt::Display>::fmt"]
            if len(hs) != 1:
                raise NotEvaluable(f"Display impl of {ty} not found")
            f = Formatter()
            self.call_fn(hs[0], [recv, f])
            return f.text()
        if isinstance(recv, float):
            if m == "is_finite":
                return recv == recv and recv not in (float("inf"), float("-inf"))
            if m == "is_nan":
                return recv != recv
            if m == "trunc":
                return float(int(recv))
            if m == "fract":
                return recv - int(recv)
            if m == "to_string":
                return float_display(recv)
        if isinstance(recv, int) and not isinstance(recv, bool):
            if m == "to_string":
                return str(recv)
            if m == "to_str_radix" and args == [10]:
                return str(recv)
        if isinstance(recv, RChar) and m == "to_string":
            return str(recv)
        if isinstance(recv, tuple) and recv and recv[0] == "Some" and m in ("unwrap", "expect"):
            return recv[1]
        if (recv is None or (isinstance(recv, tuple) and len(recv) == 2 and recv[0] == "Some")) and m in ("is_some", "is_none", "is_some_and", "is_none_or", "as_ref", "as_deref"):
            if m == "is_some":
                return recv is not None
            if m == "is_none":
                return recv is None
            if m == "is_some_and":
                return recv is not None and bool(self.apply(args[0], recv[1]))
            if m == "is_none_or":
                return recv is None or bool(self.apply(args[0], recv[1]))
            return recv
        # Option combinators (None is Python None, Some(x) is ("Some", x))
        if m in ("is_some_and", "is_none_or") and len(args) == 1 and (recv is None or (isinstance(recv, tuple) and recv and recv[0] == "Some")):
            if recv is None:
                return m == "is_none_or"
            return bool(self.apply(args[0], recv[1]))
        if m in ("and_then", "unwrap_or", "unwrap_or_else", "unwrap_or_default") and (recv is None or (isinstance(recv, tuple) and recv and recv[0] == "Some")):
            if m == "and_then":
                return None if recv is None else self.apply(args[0], recv[1])
            if m == "unwrap_or":
                return args[0] if recv is None else recv[1]
            if m == "unwrap_or_else":
                return self.apply(args[0]) if recv is None else recv[1]
        if m in _CHAR_PREDS and not isinstance(recv, list):
            if isinstance(recv, str) and not isinstance(recv, RChar):      # str::is_ascii
                if m == "is_ascii":
                    return all(ord(ch) < 128 for ch in recv)
                raise NotEvaluable(m)
            return _CHAR_PREDS[m](_ordv(recv))
        if isinstance(recv, str) and m in ("escape_debug", "escape_default", "escape_unicode"):
            return std_escape_one(("char::" if isinstance(recv, RChar) else "str::") + m, recv)
        if isinstance(recv, str) and not isinstance(recv, RChar):
            if m == "split" and isinstance(args[0], str):
                return recv.split(args[0])
            if m == "replace" and all(isinstance(a, str) for a in args):
                return recv.replace(args[0], args[1])
            if m == "is_empty":
                return recv == ""
            if m == "len":
                return len(recv.encode("utf-8"))
            if m == "chars":
                return [RChar(ch) for ch in recv]
            if m == "char_indices":
                out, off = [], 0
                for ch in recv:
                    out.append((off, RChar(ch)))
                    off += len(ch.encode("utf-8"))
                return out
            if m in ("bytes", "as_bytes"):
                return list(recv.encode("utf-8"))
            if m == "starts_with":
                return recv.startswith(args[0])
            if m == "ends_with":
                return recv.endswith(args[0])
            if m == "strip_prefix" and isinstance(args[0], str):
                return ("Some", recv[len(args[0]):]) if recv.startswith(args[0]) else None
            if m == "strip_suffix" and isinstance(args[0], str):
                return ("Some", recv[:len(recv) - len(args[0])]) if recv.endswith(args[0]) and args[0] != "" else (("Some", recv) if args[0] == "" else None)
            if m in ("as_str", "as_ref", "to_string", "to_owned", "clone", "into", "borrow"):
                return recv
            if m in ("trim_end_matches", "trim_start_matches", "trim_matches") and len(args) == 1 and isinstance(args[0], str) and args[0] != "":
                out = recv
                pat = str(args[0])
                if m in ("trim_end_matches", "trim_matches"):
                    while out.endswith(pat):
                        out = out[:len(out) - len(pat)]
                if m in ("trim_start_matches", "trim_matches"):
                    while out.startswith(pat):
                        out = out[len(pat):]
                return out
            if m in ("trim", "trim_end", "trim_start") and not args:
                return recv.strip() if m == "trim" else recv.rstrip() if m == "trim_end" else recv.lstrip()
            if m == "push_str":
                raise NotEvaluable("string mutation")
        if m == "contains":
            x = _ordv(args[0])
            if isinstance(recv, tuple) and recv and recv[0] == "range":
                return recv[1] <= x < recv[2]
            if isinstance(recv, list):
                return any(_ordv(y) == x for y in recv)
            if isinstance(recv, str):
                return (args[0] in recv) if isinstance(args[0], str) else NotImplemented
        if isinstance(recv, list):
            if m in ("iter", "into_iter", "copied", "cloned", "as_slice", "as_ref"):
                return recv
            if m == "enumerate":
                return list(enumerate(recv))
            if m == "all":
                return all(self.apply(args[0], x) for x in recv)
            if m == "any":
                return any(self.apply(args[0], x) for x in recv)
            if m == "skip":
                return recv[args[0]:]
            if m == "windows" and isinstance(args[0], int):
                if args[0] == 0:
                    raise NotEvaluable("windows(0) panics")
                return [recv[i:i + args[0]] for i in range(0, len(recv) - args[0] + 1)]
            if m == "starts_with" and isinstance(args[0], list):
                return recv[:len(args[0])] == args[0]
            if m == "ends_with" and isinstance(args[0], list):
                return args[0] == [] or recv[-len(args[0]):] == args[0]
            if m == "first" and not args:
                return ("Some", recv[0]) if recv else None
            if m == "last" and not args:
                return ("Some", recv[-1]) if recv else None
            if m == "position" and len(args) == 1:
                for i_, x_ in enumerate(recv):
                    if self.apply(args[0], x_):
                        return ("Some", i_)
                return None
            if m == "is_empty" and not args:
                return not recv
            if m == "len" and not args:
                return len(recv)
            if m == "len":
                return len(recv)
            if m == "is_empty":
                return not recv
            if m == "next":
                return ("Some", recv[0]) if recv else None
            if m in ("first", "last"):
                return ("Some", recv[0 if m == "first" else -1]) if recv else None
            if m == "push":
                recv.append(args[0])
                return None
            if m == "reverse":
                recv.reverse()
                return None
            if m == "rev":
                return list(reversed(recv))
            if m in ("rchunks", "chunks"):
                n = args[0]
                if m == "chunks":
                    return [recv[i:i + n] for i in range(0, len(recv), n)]
                out, i = [], len(recv)
                while i > 0:
                    out.append(recv[max(0, i - n):i])
                    i -= n
                return out
            if m in ("join", "concat") and all(isinstance(x, str) for x in recv):
                return (args[0] if m == "join" else "").join(recv)
            if m == "map":
                return [self.apply(args[0], x) for x in recv]
            if m == "filter":
                return [x for x in recv if self.apply(args[0], x)]
            if m == "collect":
                ty = e.get("ty") or ""
                if ty.endswith("String"):
                    return "".join(recv)
                if re.search(r"option::Option<alloc::vec::Vec<", ty):        # collect::<Option<Vec<_>>>(): None if any item is None
                    if any(x is None for x in recv):
                        return None
                    if all(isinstance(x, tuple) and x and x[0] == "Some" for x in recv):
                        return ("Some", [x[1] for x in recv])
                    raise NotEvaluable("collect into Option<Vec<_>> of non-Option items")
                return recv
        if m in ("clone", "as_ref", "borrow", "into", "to_owned") and not args:
            return recv
        raise NotEvaluable(f"method {m} on {type(recv).__name__}")


def eval_expr(e, env):
    return Interp().ev(e, env)


# ============================================================================ lexer tables from the facts
def _leading_literals(ast):
    """number of leading / trailing literal characters of a regex AST"""
    items = ast[1] if ast[0] == "cat" else [ast]
    lead = 0
    for x in items:
        if x[0] != "lit":
            break
        lead += 1
    trail = 0
    for x in reversed(items):
        if x[0] != "lit":
            break
        trail += 1
    return lead, trail


def finite_language(ast, limit=64):
    """all strings of a regex AST without loops (None if it has a loop/class or more than `limit` strings)"""
    k = ast[0]
    if k == "empty":
        return [""]
    if k == "lit":
        return [ast[1]]
    if k == "cat":
        acc = [""]
        for x in ast[1]:
            l = finite_language(x, limit)
            if l is None:
                return None
            acc = [a + b for a in acc for b in l]
            if len(acc) > limit:
                return None
        return acc
    if k == "alt":
        acc = []
        for x in ast[1]:
            l = finite_language(x, limit)
            if l is None:
                return None
            acc.extend(l)
        return acc if len(acc) <= limit else None
    if k == "opt":
        l = finite_language(ast[1], limit)
        return None if l is None else [""] + l
    return None


SAMPLE_ALPHABET = [chr(i) for i in range(128)] + ["é", "̀", "\U0001F600"]


def languages_intersect(r1, r2, alphabet=None):
    """is there a non-empty string (over the sample alphabet) accepted by both regexes? (product of subset simulations)"""
    alphabet = alphabet or SAMPLE_ALPHABET
    start = (r1._closure({r1.start}), r2._closure({r2.start}))
    seen = {start}
    todo = [start]
    while todo:
        a, b = todo.pop()
        for ch in alphabet:
            na = set()
            for s in a:
                for m, t in r1.step[s]:
                    if m(ch):
                        na.add(t)
            if not na:
                continue
            nb = set()
            for s in b:
                for m, t in r2.step[s]:
                    if m(ch):
                        nb.add(t)
            if not nb:
                continue
            na = r1._closure(na)
            nb = r2._closure(nb)
            if r1.accept in na and r2.accept in nb:
                return True
            if (na, nb) not in seen:
                seen.add((na, nb))
                todo.append((na, nb))
    return False


def _arms_with_variant(fn_hir, variant_path_suffix):
    out = []
    for m in nodes(fn_hir["body"], "match"):
        for a in m["arms"]:
            from facts import pat_variants
            if any((v or "").endswith(variant_path_suffix) for v in pat_variants(a["pat"])):
                out.append((m, a))
    return out


def build_tokenizer(facts):
    """TokenizerModel of candid_parser::token from the attribute tables and the HIR of Tokenizer::next;
    returns (model, info) where info records the functions read. AnchorMissing if the decoding arms moved."""
    p = facts.crate("candid_parser")
    tok = Logos(p.attr_item(r"token::Token$"))
    txt = Logos(p.attr_item(r"token::Text$"))
    com = Logos(p.attr_item(r"token::Comment$"))
    h = p.method(r"token::Tokenizer", "next", r"Iterator$")
    # EscapeCharacter arm table: match on a char with literal arms pushing a literal char
    escapes = {}
    char_matches = [m for m in nodes(h["body"], "match") if m.get("sty") == "char" and m.get("src") == "Normal"]
    if len(char_matches) != 1:
        raise AnchorMissing(f"Tokenizer::next: expected one match on the escape character, found {len(char_matches)}")
    default_rejects = False
    for a in char_matches[0]["arms"]:
        pushes = [n for n in walk(a["body"]) if n.get("k") == "mcall" and n["m"] in ("push", "push_str")]
        alts = a["pat"]["subs"] if a["pat"].get("k") == "or" else [a["pat"]]
        if all(x.get("k") == "lit" and "char" in (x.get("v") or {}) for x in alts):
            if len(pushes) != 1 or not isinstance(lit_value(pushes[0]["args"][0]), str):
                raise AnchorMissing("Tokenizer::next: an escape-character arm does not push one literal")
            for x in alts:
                escapes[x["v"]["char"]] = lit_value(pushes[0]["args"][0])
        else:
            if pushes:
                raise AnchorMissing("Tokenizer::next: the default escape-character arm pushes a character (model expects an error)")
            default_rejects = True
    if not default_rejects:
        raise AnchorMissing("Tokenizer::next: no rejecting default arm for unknown escape characters")
    # the sub-lexer variant set the model knows
    names = {r[0] for r in txt.rules}
    if names != {"Text", "EscapeCharacter", "Codepoint", "Byte", "EndString"}:
        raise AnchorMissing(f"token::Text variants changed: {sorted(names)}")
    for need in ("StartString", "StartComment", "LineComment", "Id"):
        if need not in {r[0] for r in tok.rules}:
            raise AnchorMissing(f"token::Token::{need} has no lexer rule any more")

    def radix_and_slice(variant, want_from):
        arms = _arms_with_variant(h, f"token::Text::{variant}")
        if len(arms) != 1:
            raise AnchorMissing(f"Tokenizer::next: expected one arm for Text::{variant}, found {len(arms)}")
        body = arms[0][1]["body"]
        rad = [lit_value(n["args"][1]) for n in walk(body)
               if n.get("k") == "call" and (callee(n) or "").endswith("from_str_radix") and len(n.get("args", [])) == 2]
        if rad != [16]:
            raise AnchorMissing(f"Tokenizer::next: Text::{variant} arm should parse base 16 once, found radix {rad}")
        starts = []
        ends = []
        for n in walk(body):
            if n.get("k") == "struct" and "ops::range::Range" in ((n.get("res") or {}).get("path") or ""):
                f = dict((k, v) for k, v in n["fields"])
                if "start" in f:
                    starts.append(lit_value(f["start"]))
                if "end" in f:
                    e = unblock(f["end"])
                    ends.append(lit_value(e["b"]) if e.get("k") == "bin" and e.get("op") == "Sub" else None)
        rxs = [r[3] for r in txt.rules if r[0] == variant and r[3] is not None]
        if len(rxs) != 1:
            raise AnchorMissing(f"token::Text::{variant}: expected one regex")
        lead, trail = _leading_literals(rxs[0].ast)
        if starts != [lead] or (trail and ends != [trail]) or (not trail and ends):
            raise AnchorMissing(f"Tokenizer::next: Text::{variant} slices [{starts}..len-{ends}] but its regex has "
                                f"{lead} leading and {trail} trailing literal characters")
        if want_from and not any((callee(n) or "").endswith(want_from) for n in walk(body) if n.get("k") in ("call", "mcall")):
            raise AnchorMissing(f"Tokenizer::next: Text::{variant} arm no longer calls {want_from}")

    radix_and_slice("Codepoint", "char::from_u32")
    radix_and_slice("Byte", "as_mut_vec")
    # parse_number strips the digit separator
    model = TokenizerModel(tok, txt, com, escapes)
    return model, {"fn": h["key"], "escapes": escapes}


def reserved_words(model):
    """words that match the identifier regex but are lexed as another token (so they cannot be used bare as a name).
    Returns (sorted words, problems) — problems = regex tokens whose infinite language overlaps identifiers."""
    tok = model.token
    ids = [r for r in tok.rules if r[0] == "Id" and r[1] == "regex"]
    if len(ids) != 1:
        raise AnchorMissing(f"token::Token::Id should have exactly one #[regex], found {len(ids)}")
    idrx = ids[0][3]
    words = set()
    problems = []
    for name, kind, pat, rx, prio in tok.rules:
        if name == "Id":
            continue
        if kind == "token":
            cands = [pat]
        else:
            cands = finite_language(rx.ast)
            if cands is None:
                if languages_intersect(rx, idrx):
                    problems.append((name, pat))
                continue
        for w in cands:
            if w and idrx.fullmatch(w):
                r = tok.next(w, 0)
                if r is not None and r == (name, len(w)):
                    words.add(w)
    return sorted(words), problems


def keywords_table(c):
    """KEYWORDS of pretty/candid.rs as a list of strings + the HIR item"""
    hs = [h for k, h in c.hir.items() if re.search(r"pretty::candid::KEYWORDS$", k)]
    if len(hs) != 1:
        raise AnchorMissing("static KEYWORDS not found in candid::pretty::candid")
    body = unblock(hs[0]["body"])
    body = peel(body)
    if body.get("k") != "array":
        raise AnchorMissing("KEYWORDS is not an array literal")
    ws = [lit_value(e) for e in body["es"]]
    if not all(isinstance(w, str) for w in ws):
        raise AnchorMissing("KEYWORDS contains a non-literal entry")
    return ws, hs[0]


def check_quoting_chain(c):
    """ident_string quotes exactly when needs_quote; needs_quote = !is_valid_as_id || is_keyword; is_keyword = KEYWORDS.contains.
    Returns list of problems (strings); AnchorMissing if the functions are gone."""
    problems = []
    isk = c.fn(r"pretty::candid::is_keyword$")
    b = peel(unblock(isk["body"]))
    okk = (b.get("k") == "mcall" and b["m"] == "contains"
           and (peel(b["recv"]).get("res") or {}).get("path", "").endswith("pretty::candid::KEYWORDS"))
    if not okk:
        problems.append("is_keyword is no longer `KEYWORDS.contains(&id)`")
    nq = c.fn(r"pretty::candid::needs_quote$")
    b = unblock(nq["body"])
    ok = False
    if b.get("k") == "bin" and b.get("op") == "Or":
        sides = [unblock(b["a"]), unblock(b["b"])]
        neg = [s for s in sides if s.get("k") == "un" and s.get("op") == "Not"
               and (callee(unblock(s["a"])) or "").endswith("pretty::candid::is_valid_as_id")]
        kw = [s for s in sides if (callee(s) or "").endswith("pretty::candid::is_keyword")]
        ok = len(neg) == 1 and len(kw) == 1
    if not ok:
        problems.append("needs_quote is no longer `!is_valid_as_id(id) || is_keyword(id)`")
    ids = c.fn(r"pretty::candid::ident_string$")
    b = unblock(ids["body"])
    ok = False
    if b.get("k") == "if" and (callee(unblock(b["c"])) or "").endswith("pretty::candid::needs_quote"):
        fcs = fmt_calls(b["t"])
        raw_else = not fmt_calls(b["e"]) if b.get("e") else False
        if len(fcs) == 1 and raw_else:
            parts = fcs[0].parts
            ok = (len(parts) == 3 and parts[0] == '"' and parts[2] == '"' and isinstance(parts[1], Placeholder))
    if not ok:
        problems.append('ident_string is no longer `if needs_quote(id) { "\\"{escaped}\\"" } else { id }`')
    return problems, [isk["key"], nq["key"], ids["key"]]


def check_quoting_semantic(c, model, words):
    """Evaluate ident_string itself: every reserved word of the lexer comes out quoted, and every string of length <= 3 over a
    small alphabet that comes out unquoted is read by the lexer as exactly one Id token.
    -> ("ok", detail) | ("bad", message) | ("ne", reason) when ident_string leaves the evaluable fragment"""
    ids = c.fn(r"pretty::candid::ident_string$")
    interp = Interp(c)
    try:
        for w in words:
            out = interp.call_fn(ids, [w])
            if out == w:
                return "bad", (f"ident_string prints the reserved word `{w}` unquoted: a field, variant tag or method of that name does "
                               f"not re-parse as a name")
        alpha = ["a", "Z", "_", "0", "-", " ", "é", '"', "\\"]
        todo, n = [""], 0
        for ln in range(0, 4):
            nxt = []
            for s_ in todo:
                if s_ and interp.call_fn(ids, [s_]) == s_:
                    n += 1
                    try:
                        toks = model.tokenize(s_)
                    except LexError as e:
                        toks = e
                    if not (isinstance(toks, list) and len(toks) == 1 and toks[0][1] == s_ and toks[0][0] == "Id"):
                        return "bad", f"ident_string prints {s_!r} unquoted, which the lexer does not read as one Id token ({toks})"
                if ln < 3:
                    nxt.extend(s_ + ch for ch in alpha)
            todo = nxt
    except NotEvaluable as e:
        return "ne", str(e)
    return "ok", f"ident_string evaluated: all {len(words)} reserved words quoted; {n} unquoted outputs (length <= 3, 9-character alphabet) are single Id tokens"


# ============================================================================ lexical scopes of a function body
def pat_bindings(p, ctor, out):
    """bindings of a pattern: name -> constructor path that directly encloses the binding (or the given default)"""
    if not isinstance(p, dict):
        return out
    k = p.get("k")
    if k == "bind":
        out[p["n"]] = ctor
        if p.get("sub"):
            pat_bindings(p["sub"], ctor, out)
    elif k in ("ts", "struct"):
        cp = (p.get("res") or {}).get("path")
        for s_ in (p.get("subs") or []):
            pat_bindings(s_, cp, out)
        for f in (p.get("fields") or []):
            pat_bindings(f[1], cp, out)
    else:
        for key in ("subs", "pre", "post"):
            for s_ in p.get(key) or []:
                pat_bindings(s_, ctor, out)
        for key in ("sub", "mid"):
            if p.get(key):
                pat_bindings(p[key], ctor, out)
    return out


class Scopes:
    """lexical scoping of one function body: for every use of a local the binding in scope
    ({origin: constructor path | 'param' | 'closure' | 'let' | 'match', init: expr | None}), and for every node the
    heads of the innermost enclosing match arm (the `arm context`)."""

    def __init__(self, fn_hir):
        self.use = {}
        self.ctx = {}
        env = {}
        for p in fn_hir["params"]:
            for n, ctor in pat_bindings(p, "param", {}).items():
                env[n] = {"origin": ctor, "init": None}
        self.visit(fn_hir["body"], env, "")

    def visit(self, n, env, ctx):
        if isinstance(n, list):
            for x in n:
                self.visit(x, env, ctx)
            return
        if not isinstance(n, dict):
            return
        self.ctx[id(n)] = ctx
        k = n.get("k")
        if k == "path":
            r = n.get("res") or {}
            if r.get("kind") == "Local":
                self.use[id(n)] = env.get(r.get("path"))
            return
        if k == "block":
            env2 = dict(env)
            for st in n.get("stmts") or []:
                self.ctx[id(st)] = ctx
                if st.get("k") == "slet":
                    if st.get("init") is not None:
                        self.visit(st["init"], env2, ctx)
                    if st.get("els"):
                        self.visit(st["els"], env2, ctx)
                    single = st["pat"].get("k") == "bind" and not st["pat"].get("sub")
                    for nm, ctor in pat_bindings(st["pat"], "let", {}).items():
                        env2[nm] = {"origin": ctor, "init": st.get("init") if single else None}
                else:
                    self.visit(st, env2, ctx)
            if n.get("e") is not None:
                self.visit(n["e"], env2, ctx)
            return
        if k == "match":
            self.visit(n["scrut"], env, ctx)
            for a in n["arms"]:
                env2 = dict(env)
                for nm, ctor in pat_bindings(a["pat"], "match", {}).items():
                    env2[nm] = {"origin": ctor, "init": None}
                heads = [pat_head(x) for x in pat_alternatives(a["pat"])]
                names = [short(hd) for hd in heads if isinstance(hd, str) and "::" in hd]
                ctx2 = "|".join(names) if names and n.get("src") == "Normal" else ctx
                if a.get("guard") is not None:
                    self.visit(a["guard"], env2, ctx2)
                self.visit(a["body"], env2, ctx2)
            return
        if k == "if":
            env2 = dict(env)
            for ln in nodes(n["c"], "let"):
                for nm, ctor in pat_bindings(ln["pat"], "let", {}).items():
                    env2[nm] = {"origin": ctor, "init": None}
            self.visit(n["c"], env2, ctx)
            self.visit(n["t"], env2, ctx)
            if n.get("e") is not None:
                self.visit(n["e"], env, ctx)
            return
        if k == "closure":
            env2 = dict(env)
            for p in n.get("params") or []:
                for nm, ctor in pat_bindings(p, "closure", {}).items():
                    env2[nm] = {"origin": ctor, "init": None}
            self.visit(n["body"], env2, ctx)
            return
        for key, v in n.items():
            if isinstance(v, (dict, list)) and key not in ("res", "callee", "v", "mac", "ga", "pat"):
                self.visit(v, env, ctx)


# ============================================================================ unordered iteration (MIR call sites)
_HASH_ITER_METHOD = re.compile(r"hash::(map::HashMap|set::HashSet)(::)?<.*>::(iter|keys|values|into_iter|drain|iter_mut|values_mut|"
                               r"into_keys|into_values|retain|extract_if)$")
_HASH_ITER_TYPE = re.compile(r"hash(_|::)(map|set)::(Iter|IterMut|Keys|Values|ValuesMut|IntoIter|IntoKeys|IntoValues|Drain)\b")


def hash_iteration_sites(body):
    """[(callee, line)] of the call sites of a MIR body that iterate a HashMap / HashSet"""
    out = []
    for bb, t, cal in body.call_sites():
        f = t.get("f")
        k = (f.get("k") or {}) if isinstance(f, dict) else {}
        declared, resolved = k.get("fn") or "", k.get("res") or ""
        ga = [g or "" for g in (k.get("ga") or [])]
        hit = None
        for name in (declared, resolved):
            if _HASH_ITER_METHOD.search(name) or _HASH_ITER_TYPE.search(name):
                hit = name
        if hit is None and any(_HASH_ITER_TYPE.search(g) for g in ga):
            hit = f"{declared} over {[g for g in ga if _HASH_ITER_TYPE.search(g)][0]}"
        if hit is None and "IntoIterator" in declared and any(re.search(r"Hash(Map|Set)<", g) for g in ga):
            hit = f"{declared} over {ga[0]}"
        if hit:
            out.append((hit, t.get("ln")))
    return out
