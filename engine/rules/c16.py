"""C16 — principal text form is a checksummed bijection on 0..29-byte ids (structural clauses)."""
import os
import re
import subprocess
import time

from extract import CACHE, REPO, env_base, witness_dir
from facts import AnchorMissing, callee, lit_value, nodes, op_int, op_place, place_fields, short, term_callee, walk
from c15_util import DefUse, edge_dominates, switch_guards

TITLE = ("C16: a Principal value is only ever built by the four length-checked constructors (whole-crate inventory of "
         "struct literals and field writes, no unsafe; external crates cannot write the fields: compile-fail witnesses); "
         "from_text returns Ok only behind the length, CRC and canonical-reprint comparisons; the wire limit, CRC width, "
         "group size and separator constants agree.")

P = "ic_principal::Principal"
GROUP = 5          # property statement: "dash-separated groups of five"
SEP = "-"


def consts(p):
    out = {}
    for name in ("MAX_LENGTH_IN_BYTES", "CRC_LENGTH_IN_BYTES"):
        h = p.hir.get(f"{P}::{name}")
        v = lit_value(h["body"]) if h else None
        if not isinstance(v, int):
            raise AnchorMissing(f"{P}::{name} is not an integer literal constant any more")
        out[name] = v
    return out


def principal_aggs(body):
    """(block, rvalue) of every `Principal { len, bytes }` literal in a MIR body"""
    out = []
    for bi, blk in enumerate(body.blocks):
        if blk.get("c"):
            continue
        for st in blk["s"]:
            if st["k"] == "assign" and st["r"].get("k") == "agg" and st["r"].get("adt") == P:
                out.append((bi, st["r"]))
    return out


def norm_cmp(op, a, b):
    """normalise `const OP x` to `x OP' const`; returns (op, x operand, const value) or None"""
    flip = {"Lt": "Gt", "Gt": "Lt", "Le": "Ge", "Ge": "Le", "Eq": "Eq", "Ne": "Ne"}
    if op not in flip:
        return None
    if op_int(b) is not None and op_int(a) is None:
        return op, a, op_int(b)
    if op_int(a) is not None and op_int(b) is None:
        return flip[op], b, op_int(a)
    return None


def upper_bound_edge(g, limit):
    """if the guard tests `x <= limit` in some spelling, return (x operand, edge on which it holds)"""
    if g.get("kind") != "bin":
        return None
    n = norm_cmp(g["op"], *g["operands"])
    if n is None:
        return None
    op, x, k = n
    if (op, k) in (("Le", limit), ("Lt", limit + 1)):
        return x, "true"
    if (op, k) in (("Gt", limit), ("Ge", limit + 1)):
        return x, "false"
    return None


# --------------------------------------------------------------------------- R1
def r1(chk, facts):
    p = facts.crate("ic_principal")
    K = consts(p)
    MAX = K["MAX_LENGTH_IN_BYTES"]
    st = p.item("struct", r"^ic_principal::Principal$")
    fields = {f["name"]: f for f in st["variants"][0]["fields"]}
    chk.expect(set(fields) == {"len", "bytes"} and not any(f["pub"] for f in fields.values()), "fields-private",
               f"struct Principal must consist of the private fields len and bytes, found "
               f"{[(f['name'], 'pub' if f['pub'] else 'private') for f in fields.values()]}",
               ok_detail="len: u8 and bytes: [u8; MAX] are private")
    # (a) inventory of struct literals over the whole crate
    allowed = {f"{P}::management_canister": "const", f"{P}::anonymous": "const", f"{P}::self_authenticating": "const",
               f"{P}::from_slice_core": "checked"}
    found = {}
    for k, b in p.bodies.items():
        ag = principal_aggs(b)
        if ag:
            found[k] = (b, ag)
    for k in sorted(found):
        b, ag = found[k]
        chk.analysed(k)
        if k not in allowed:
            chk.bad(f"ctor:{k}", f"{k} builds `Principal {{ len, bytes }}` directly: only management_canister, anonymous, "
                                 f"self_authenticating and from_slice_core (under its length match) may do that; every other "
                                 f"constructor must go through from_slice_core", where=b.span["file"])
            continue
        du = DefUse(b)
        for bi, r in ag:
            ops = dict(zip(r["fields"], r["ops"]))
            bytes_pl = op_place(ops["bytes"])
            bty = b.local_ty(bytes_pl["l"]) if bytes_pl else None
            cap_ok = bty == f"[u8; {MAX}]"
            if allowed[k] == "const":
                tr = du.trace(ops["len"])
                v = tr["root"][1] if tr["root"][0] == "const" else None
                chk.expect(isinstance(v, int) and 0 <= v <= MAX and cap_ok, f"ctor:{short(k)}",
                           f"{k}: the literal's len must be a constant in 0..={MAX} and bytes a [u8; {MAX}]; found len from "
                           f"{tr['root'][:2]}, bytes: {bty}", ok_detail=f"len = {v} <= {MAX}, bytes: {bty}")
            else:
                # len operand = (cast of) the value tested by the dominating `<= MAX` guard, which is slice.len()
                tr = du.trace(ops["len"])
                root = tr["root"]
                guards = switch_guards(b, du)
                okg = None
                for g in guards:
                    ub = upper_bound_edge(g, MAX)
                    if ub is None:
                        continue
                    x, edge = ub
                    if du.trace(x)["root"][:2] == root[:2] and (root[0] != "call" or du.trace(x)["root"][2] is root[2]) \
                            and edge_dominates(b, g["block"], g[edge], bi):
                        okg = g
                is_len = root[0] == "call" and re.search(r"^core::slice::<impl \[T\]>::len$", root[1] or "") is not None \
                    and du.trace(root[2]["args"][0])["root"] == ("param", 1)
                chk.expect(okg is not None and is_len and cap_ok and tr["casts"] == [("usize", "u8")], f"ctor:{short(k)}",
                           f"{k}: the literal must be dominated by the test `slice.len() <= {MAX}` on the very value stored "
                           f"(as u8) in `len`, with bytes: [u8; {MAX}]; found len from {root[:2]}, casts {tr['casts']}, "
                           f"dominating guard: {'yes' if okg else 'no'}, bytes: {bty}",
                           ok_detail=f"literal dominated by slice.len() <= {MAX}; len = slice.len() as u8")
    for k in sorted(set(allowed) - set(found)):
        chk.bad(f"ctor:{short(k)}", f"anchor moved: {k} no longer contains the struct literal (renamed, or feature not enabled)")
    chk.floor("functions containing the Principal struct literal", len(found), 4)
    # (d) field writes / mutable borrows of the fields anywhere in the crate
    writers = {}
    nb = 0
    for k, b in p.bodies.items():
        nb += 1
        for bi, blk in enumerate(b.blocks):
            for s in blk["s"]:
                if s["k"] != "assign":
                    continue
                cands = []
                if s["p"].get("p"):
                    cands.append(("write", s["p"]))
                r = s["r"]
                if r.get("k") == "ref" and r.get("bk") not in ("shared", "fake", "shallow", None) and r["p"].get("p"):
                    cands.append(("&mut", r["p"]))
                if r.get("k") == "rawptr" or r.get("k") == "addr":
                    cands.append(("raw pointer", r.get("p") or {"l": 0}))
                for how, pl in cands:
                    if P not in b.local_ty(pl["l"]):
                        continue
                    fs = place_fields(pl)
                    if fs and fs[0] in ("len", "bytes"):
                        writers.setdefault((k, fs[0]), set()).add(how)
    mutators_ok = {"add_one", "sub_one"}    # rangemap::StepLite: step the bytes in place, length untouched
    for (k, fld), how in sorted(writers.items()):
        if k in allowed:
            continue
        name = short(k)
        if fld == "bytes" and name in mutators_ok and "StepLite" in k:
            chk.ok(f"mutator:{name}", f"{k} mutates bytes in place ({sorted(how)}), len untouched")
            continue
        chk.bad(f"field-write:{k}:{fld}", f"{k} writes / mutably borrows Principal.{fld} ({sorted(how)}) outside the checked "
                                          f"constructors: the invariant len <= {MAX} (and zero padding) is no longer established "
                                          f"in one place", where=p.bodies[k].span["file"])
    chk.floor("ic_principal bodies scanned for field writes", nb, 40)
    # (e) no unsafe code that could forge a value
    bad_unsafe = []
    for k, h in p.hir.items():
        for n in walk(h["body"]):
            if n.get("k") == "block" and n.get("unsafe"):
                tail = n.get("e") or {}
                if not n.get("stmts") and any(str(m).startswith("~Format") for m in (tail.get("mac") or [])):
                    continue      # the compiler's own lowering of format_args!
                if any("thread_local" in str(m) for m in (n.get("mac") or []) + (tail.get("mac") or [])):
                    continue      # std's thread_local! expansion (lazy-init internals), not repository code
                bad_unsafe.append(k)
            if n.get("k") in ("call", "mcall") and re.search(r"(transmute|MaybeUninit|mem::zeroed|ptr::(write|read|copy)|from_raw)", callee(n) or ""):
                bad_unsafe.append(k)
    chk.expect(not bad_unsafe, "no-unsafe", f"unsafe blocks / transmute-like calls in ic_principal: {sorted(set(bad_unsafe))}: a "
                                            f"Principal could be forged without the length check",
               ok_detail=f"{len(p.hir)} bodies, none uses unsafe")
    # (f) byte entry points reach from_slice_core
    entries = (("from_slice", rf"^{P}::from_slice$"), ("try_from_slice", rf"^{P}::try_from_slice$"),
               ("TryFrom<&[u8]>", rf"^<{P} as core::convert::TryFrom<&\[u8\]>>::try_from$"),
               ("TryFrom<Vec<u8>>", rf"^<{P} as core::convert::TryFrom<alloc::vec::Vec<u8>>>::try_from$"),
               ("TryFrom<&Vec<u8>>", rf"^<{P} as core::convert::TryFrom<&alloc::vec::Vec<u8>>>::try_from$"),
               ("visit_bytes", r"PrincipalVisitor as serde_core::de::Visitor<'_>>::visit_bytes$"),
               ("visit_byte_buf", r"PrincipalVisitor as serde_core::de::Visitor<'_>>::visit_byte_buf$"))
    target = f"{P}::from_slice_core"
    for name, kre in entries:
        b = p.body(kre)
        chk.analysed(b.key)
        seen, work = set(), [b.key]
        while work:
            k = work.pop()
            if k in seen or k not in p.bodies:
                continue
            seen.add(k)
            for _, _, cal in p.bodies[k].call_sites():
                if cal and cal not in seen:
                    work.append(cal)
            work.extend(k2 for k2 in p.bodies if k2.startswith(k + "::{closure") and k2 not in seen)      # closures are separate bodies
        chk.expect(target in seen, f"reaches-core:{name}",
                   f"{b.key} does not reach {target} through calls inside ic_principal: bytes could become a Principal "
                   f"without the length check", ok_detail=f"{name} -> ... -> from_slice_core")
        other = sorted(k for k in seen if re.search(rf"^{P}::from_text$|str::traits::FromStr>::from_str$|TryFrom<&str>>::try_from$", k))
        chk.expect(not other, f"bytes-only:{name}",
                   f"{b.key} (an entry point that is given bytes) also reaches the text constructor {other}: a byte string the byte constructor "
                   f"rejects (longer than {MAX} bytes) can then be accepted because it happens to spell a principal's text form — bytes longer than "
                   f"{MAX} must be rejected by every constructor", ok_detail="no text constructor reachable")
    # (g) compile-fail witnesses
    witness_rule(chk)


# --------------------------------------------------------------------------- witnesses
def parse_witness_source(src):
    """item name -> (fence attributes, code lines) from the doc comments of the witness crate (our own file)"""
    out = {}
    cur_attr, cur, pending = None, [], []
    for line in src.splitlines():
        s = line.strip()
        if s.startswith("///"):
            t = s[3:].strip()
            if t.startswith("```"):
                if cur_attr is None:
                    cur_attr, cur = t[3:].strip(), []
                else:
                    pending.append((cur_attr, cur))
                    cur_attr = None
            elif cur_attr is not None:
                cur.append(t)
        else:
            m = re.match(r"pub mod (\w+)\s*\{\s*\}", s)
            if m and pending:
                out[m.group(1)] = pending[-1]
            if s and not s.startswith("//"):
                pending = []
    return out


def run_doctests():
    wd = witness_dir(REPO, CACHE)
    e = env_base()
    e["CARGO_TARGET_DIR"] = os.path.join(CACHE, "witness-target")
    e["CARGO_PROFILE_DEV_DEBUG"] = "0"
    e["CARGO_PROFILE_TEST_DEBUG"] = "0"
    e.pop("RUSTFLAGS", None)
    e.pop("RUSTC_WORKSPACE_WRAPPER", None)
    t0 = time.time()
    r = subprocess.run(["cargo", "+nightly", "test", "--doc", "--offline"], cwd=wd, env=e,
                       stdout=subprocess.PIPE, stderr=subprocess.STDOUT, text=True)
    ver = subprocess.run(["rustc", "+nightly", "--version"], env=e, stdout=subprocess.PIPE, stderr=subprocess.STDOUT, text=True).stdout
    return wd, r.returncode, r.stdout, ver.strip(), time.time() - t0


def witness_rule(chk):
    wd, rc, out, ver, secs = run_doctests()
    if "witness" not in " ".join(chk.configs):
        chk.configs.append(f"witness doctests: cargo +nightly test --doc --offline in {wd} ({ver}, {secs:.0f}s)")
    if "nightly" not in ver:
        raise AnchorMissing(f"compile_fail error codes are only checked on nightly; `rustc +nightly --version` says {ver!r}")
    results = {}
    for m in re.finditer(r"^test \S+ - (\S+) \(line \d+\)( - compile fail| - compile)? \.\.\. (\w+)", out, re.M):
        results[m.group(1)] = ((m.group(2) or "").strip(" -"), m.group(3))
    if not results:
        raise AnchorMissing(f"no doctest ran in {wd} (exit code {rc}): the witness crate or one of its dependencies does not "
                            f"build; cargo said: ...{out[-1500:]}")
    reasons = {}
    for m in re.finditer(r"^---- \S+ - (\S+) \(line \d+\) stdout ----\n(.*?)(?=^---- |\nfailures:|\Z)", out, re.M | re.S):
        reasons[m.group(1)] = " ".join(m.group(2).split())[:600]
    src = parse_witness_source(open(os.path.join(wd, "src", "lib.rs")).read())
    pairs = sorted(n for n in src if not n.endswith("_twin") and n + "_twin" in src)
    for n in pairs:
        attr, code = src[n]
        tattr, tcode = src[n + "_twin"]
        codes = re.findall(r"E\d{4}", attr)
        kind, verdict = results.get(n, (None, None))
        if "compile_fail" not in attr or not codes:
            raise AnchorMissing(f"witness {n}: fence `{attr}` is not compile_fail with an error code")
        chk.expect(kind == "compile fail" and verdict == "ok", f"witness:{n}",
                   f"witness `{n}` (an external crate writing Principal's private fields) is expected to be rejected by the "
                   f"compiler with {codes}; outcome: {verdict or 'did not run'} — {reasons.get(n, 'no details')}",
                   ok_detail=f"rejected with {','.join(codes)}")
        tk, tv = results.get(n + "_twin", (None, None))
        if not (tk == "compile" and tv == "ok"):
            chk.bad(f"witness:{n}_twin", f"anchor moved: the compiling twin of `{n}` does not compile any more "
                                         f"({tv or 'did not run'}): the API the witness is written against changed, so the witness "
                                         f"proves nothing — {reasons.get(n + '_twin', 'no details')}")
        else:
            diff = [i for i in range(max(len(code), len(tcode))) if (code[i:i + 1] or [None]) != (tcode[i:i + 1] or [None])]
            chk.expect(len(code) == len(tcode) and len(diff) == 1 and "no_run" in tattr, f"witness:{n}_twin",
                       f"twin of `{n}` must be a no_run doctest differing from it in exactly one line (differs in {len(diff)})",
                       ok_detail="compiles; differs from the witness in one line")
    chk.floor("compile-fail witnesses with compiling twins", len(pairs), 3)
    stray = sorted(set(results) - set(src))
    if stray:
        chk.assume(f"doctests without a witness/twin pairing were ignored: {stray}")


# --------------------------------------------------------------------------- R2
def r2(chk, facts):
    p = facts.crate("ic_principal")
    K = consts(p)
    MAX = K["MAX_LENGTH_IN_BYTES"]
    b = p.body(rf"^{P}::from_text$")
    chk.analysed(b.key)
    du = DefUse(b)
    guards = switch_guards(b, du)
    ok_sites = []
    for bi, blk in enumerate(b.blocks):
        if blk.get("c"):
            continue
        for s in blk["s"]:
            if s["k"] == "assign" and s["p"]["l"] == 0 and not s["p"].get("p") and s["r"].get("k") == "agg" \
                    and s["r"].get("adt") == "core::result::Result" and s["r"].get("variant") == "Ok":
                ok_sites.append((bi, s["r"]))
    if not ok_sites:
        raise AnchorMissing("from_text: no `Ok(..)` return site found")
    # where the returned principal comes from
    UNWRAP = r"(Result::<T, E>::(unwrap|expect)|Option::<T>::(unwrap|expect))$"
    ctor_calls = set()
    for bi, r in ok_sites:
        root = du.trace(r["ops"][0], through=UNWRAP)["root"]
        if root[0] == "call" and re.search(rf"^{P}::(try_from_slice|from_slice|from_slice_core)$|TryFrom<&\[u8\]>>::try_from$", root[1]):
            ctor_calls.add(id(root[2]))
            ctor = root[2]
        else:
            chk.bad("from_text:payload", f"from_text returns Ok(x) where x comes from {root[:2]}, expected the principal built from the "
                                         f"decoded payload by try_from_slice")
            return
    if len(ctor_calls) != 1:
        raise AnchorMissing("from_text: Ok sites return principals from different constructor calls")
    data_root = du.trace(ctor["args"][0])["root"]
    result_local = ctor["dest"]["l"]

    def same_data(operand, through=None):
        r = du.trace(operand, through=through)["root"]
        return r[0] == data_root[0] and (r[2] is data_root[2] if r[0] == "call" else r[1] == data_root[1])

    # G1: payload length
    g1 = []
    for g in guards:
        ub = upper_bound_edge(g, MAX)
        if ub and same_data(ub[0], through=r"^core::slice::<impl \[T\]>::len$|Vec::<T, A>::len$"):
            g1.append((g, ub[1]))
    # G2: checksum, G3: canonical text
    g2, g3 = [], []
    for g in guards:
        if g.get("kind") != "call" or not re.search(r"::(ne|eq)$", g["callee"]) or len(g["operands"]) != 2:
            continue
        edge = "false" if g["callee"].endswith("::ne") else "true"
        sl = [du.backslice(o) for o in g["operands"]]
        for i in (0, 1):
            locs, calls, _ = sl[i]
            olocs, ocalls, _ = sl[1 - i]
            if "crc32fast::hash" in calls and any(c.endswith("::to_be_bytes") for c in calls) and "crc32fast::hash" not in ocalls:
                # the hashed slice is the payload
                hs = [t for _, t, cal in b.call_sites() if cal == "crc32fast::hash" and t["dest"]["l"] in locs]
                if hs and all(same_data(t["args"][0]) for t in hs):
                    wid = [re.search(r"<impl (u\d+)>::to_be_bytes", c).group(1) for c in calls if c.endswith("::to_be_bytes")]
                    g2.append((g, edge, wid))
            if any(re.search(r"to_ascii_lowercase$|to_lowercase$", c) for c in calls) and 1 in locs and result_local not in locs \
                    and result_local in olocs and any(re.search(r"^alloc::fmt::format$|::to_text$|ToString>::to_string$", c) for c in ocalls):
                g3.append((g, edge))
    for name, gs, what in (("length", g1, f"payload.len() <= {MAX}"),
                           ("checksum", g2, "crc32(payload).to_be_bytes() == leading bytes"),
                           ("canonical", g3, "lower-cased input == format!(\"{result}\")")):
        if not gs:
            chk.bad(f"from_text:{name}", f"from_text: no test of the form `{what}` found on the way to Ok(result): a text that is not "
                                         f"the canonical spelling of the principal it denotes would be accepted")
            continue
        missing = []
        for bi, _ in ok_sites:
            if not any(edge_dominates(b, g[0]["block"], g[0][g[1]], bi) for g in gs):
                missing.append(bi)
        chk.expect(not missing, f"from_text:{name}",
                   f"from_text: {len(missing)} of {len(ok_sites)} `Ok(result)` return(s) can be reached without passing the test "
                   f"`{what}`", where=b.span["file"],
                   ok_detail=f"all {len(ok_sites)} Ok return(s) dominated by `{what}`")
    # text entry points call from_text
    entries = (("FromStr::from_str", rf"^<{P} as core::str::traits::FromStr>::from_str$"),
               ("TryFrom<&str>", rf"^<{P} as core::convert::TryFrom<&str>>::try_from$"),
               ("visit_str", r"PrincipalVisitor as serde_core::de::Visitor<'_>>::visit_str$"))
    known = set()
    for name, kre in entries:
        e = p.body(kre)
        known.add(e.key)
        chk.analysed(e.key)
        cs = [cal for _, _, cal in e.call_sites() if cal == f"{P}::from_text"]
        chk.expect(bool(cs), f"text-entry:{name}", f"{e.key} must parse through Principal::from_text (the only place where the canonical "
                                                  f"form is enforced)", ok_detail=f"{name} -> from_text")
        # ... and hands it the text exactly as received: normalising first (trim, case folding, replacing characters) makes the entry
        # point accept texts that are not the canonical text up to case
        hh = p.hir.get(e.key)
        if hh is not None:
            from facts import callee as _callee, walk as _walk, expr_path as _ep
            pnames = [y.get("n") for prm in hh.get("params") or [] for y in _walk(prm) if y.get("k") == "bind"]
            for n in _walk(hh["body"]):
                if n.get("k") == "call" and (_callee(n) or "") == f"{P}::from_text" and n.get("args"):
                    a = n["args"][0]
                    adaptors = [y["m"] for y in _walk(a) if y.get("k") == "mcall" and y["m"] not in ("as_ref", "as_str", "borrow", "deref")]
                    calls_ = [(_callee(y) or "") for y in _walk(a) if y.get("k") == "call" and not (_callee(y) or "").endswith(("::deref", "::as_ref", "::borrow"))]
                    root = (_ep(a) or "").split(".")[0]
                    chk.expect(not adaptors and not calls_ and root in pnames, f"text-entry:{name}:text-unchanged",
                               f"{e.key} passes `{_ep(a) or 'an expression'}` (adaptors {adaptors + calls_}) to from_text instead of the text it received: "
                               f"texts that differ from the canonical text by more than case would be accepted through this entry point",
                               where=f"{hh['span']['file']}:{n.get('ln')}", ok_detail="argument is the parameter itself")
    # no other function turns text into a Principal
    for k, bb in p.bodies.items():
        if k in known or k == b.key or bb.j.get("kind") == "Closure":
            continue
        ret = bb.local_ty(0)
        if not re.search(rf"(^|[<, ]){re.escape(P)}($|[>, ])", ret):
            continue
        ptys = [bb.local_ty(i) for i in range(1, bb.j.get("argc", 0) + 1)]
        if any(re.search(r"(^|&|<)(str|alloc::string::String)\b", t) for t in ptys):
            chk.bad(f"text-entry:{k}", f"{k} takes text and returns a Principal but is not one of the entry points known to go "
                                       f"through from_text", where=bb.span["file"])


def identity_rule(chk, facts):
    """a Principal is the byte string bytes[..len]: equality, hashing and ordering look at the length as well as at the (zero padded)
    array — otherwise ids that differ only by trailing zero bytes are one principal for `==` / map keys but have different texts"""
    from facts import walk as _walk, callee as _callee
    p = facts.crate("ic_principal")
    n = 0
    for k, h in sorted(p.hir.items()):
        m = re.match(rf"^<{re.escape(P)} as core::(cmp::PartialEq|hash::Hash|cmp::PartialOrd|cmp::Ord)>::(eq|hash|partial_cmp|cmp)$", k)
        if not m or h.get("body") is None:
            continue
        n += 1
        chk.analysed(k)
        fields = {x.get("n") for x in _walk(h["body"]) if x.get("k") == "field"}
        via_slice = any(x.get("k") in ("call", "mcall") and re.search(r"Principal::(as_slice|as_ref)$", _callee(x) or "") for x in _walk(h["body"]))
        chk.expect({"len", "bytes"} <= fields or via_slice, f"identity:{m.group(2)}",
                   f"{k} looks at {sorted(x for x in fields if x)} only: the identity of a principal is the pair (len, bytes) — with the length left "
                   f"out, [] and [0] (texts `aaaaa-aa` and `2ibo7-dia`) are equal / collide as keys", where=f"{h['span']['file']}:{h['span']['lo']}",
                   ok_detail="uses len and bytes" if not via_slice else "uses as_slice()")
    chk.floor("identity impls of Principal (PartialEq, Hash, PartialOrd, Ord)", n, 4)


# --------------------------------------------------------------------------- R3
def r3(chk, facts):
    identity_rule(chk, facts)
    p = facts.crate("ic_principal")
    c = facts.crate("candid")
    K = consts(p)
    MAX, CRC = K["MAX_LENGTH_IN_BYTES"], K["CRC_LENGTH_IN_BYTES"]
    pb = c.attr_item(r"binary_parser::PrincipalBytes$")
    fl = {f["name"]: " ".join(f["attrs"]) for f in pb["fields"]}
    # `assert(len <= N` / `assert(len < N`, with N a literal or (a cast of) Principal::MAX_LENGTH_IN_BYTES
    mm = re.search(r"assert\(\s*len\s*(<=|<)\s*((?:\d+)|(?:[\w:]*MAX_LENGTH_IN_BYTES))", fl.get("len", ""))
    lim = None
    if mm:
        bound = int(mm.group(2)) if mm.group(2).isdigit() else MAX
        lim = bound if mm.group(1) == "<=" else bound - 1
    if lim is None:
        raise AnchorMissing(f"PrincipalBytes.len: binread assertion `len <= N` not found in {fl.get('len')!r}")
    chk.expect(lim == MAX, "wire-limit", f"the header/value parser accepts principals of up to {lim} bytes on the wire, "
                                         f"Principal::MAX_LENGTH_IN_BYTES is {MAX}", ok_detail=f"PrincipalBytes: len <= {lim} = MAX_LENGTH_IN_BYTES")
    chk.expect(re.search(r"count\s*=\s*len\b", fl.get("inner", "")) is not None, "wire-count",
               f"PrincipalBytes.inner must read exactly `len` bytes, found {fl.get('inner')!r}", ok_detail="inner: count = len")
    # CRC width
    disp = p.method(rf"^{P}$", "fmt", r"fmt::Display$")
    ft = p.fn(rf"^{P}::from_text$")
    chk.analysed(disp["key"], ft["key"])
    for name, h in (("Display", disp), ("from_text", ft)):
        ws = [re.search(r"<impl ([ui]\d+)>::to_be_bytes$", callee(n) or "") for n in walk(h["body"]) if n.get("k") in ("call", "mcall")]
        ws = [int(w.group(1)[1:]) // 8 for w in ws if w]
        hs = [n for n in walk(h["body"]) if n.get("k") in ("call", "mcall") and callee(n) == "crc32fast::hash"]
        chk.expect(ws == [CRC] and len(hs) == 1, f"crc-width:{name}",
                   f"{h['key']}: the checksum must be crc32fast::hash(..).to_be_bytes() of width CRC_LENGTH_IN_BYTES = {CRC}; found "
                   f"widths {ws}, {len(hs)} hash call(s)", ok_detail=f"big-endian checksum of {CRC} bytes")
    # from_text splits the decoded bytes at CRC_LENGTH_IN_BYTES on both sides
    b = p.body(rf"^{P}::from_text$")
    split = {}
    for blk in b.blocks:
        for s in blk["s"]:
            if s["k"] == "assign" and s["r"].get("k") == "agg" and (s["r"].get("adt") or "").startswith("core::ops::range::Range"):
                split.setdefault(short(s["r"]["adt"]), []).append([op_int(o) for o in s["r"]["ops"]])
    chk.expect(split.get("RangeTo") == [[CRC]] and split.get("RangeFrom") == [[CRC]], "crc-split",
               f"from_text must split the decoded bytes into [..{CRC}] (checksum) and [{CRC}..] (payload); found {split}",
               ok_detail=f"bytes[..{CRC}] / bytes[{CRC}..]")
    # group size and separator
    ints = [lit_value(n) for n in nodes(disp["body"], "lit") if isinstance(lit_value(n), int)]
    chars = [n["v"]["char"] for n in nodes(disp["body"], "lit") if "char" in (n.get("v") or {})]
    chk.expect(len(ints) >= 3 and set(ints) == {GROUP}, "group-size",
               f"Display must print groups of {GROUP}: the loop bound and both slice bounds must be {GROUP}, found {ints}",
               ok_detail=f"{len(ints)} literals, all {GROUP}")
    cl = [n for n in nodes(ft["body"], "closure")]
    rchars = [x["v"]["char"] for n in cl for x in nodes(n, "lit") if "char" in (x.get("v") or {})]
    retain = [n for n in walk(ft["body"]) if n.get("k") == "mcall" and n.get("callee") == "alloc::string::String::retain"]
    # stripping *more* than the separator is harmless (the canonical comparison uses the original text); not stripping
    # it makes every grouped text fail base32 decoding
    chk.expect(chars == [SEP] and SEP in rchars and len(retain) == 1, "separator",
               f"Display must separate groups with {SEP!r} and from_text's liberal parse must strip that character before base32 "
               f"decoding; found Display {chars}, retain closure {rchars}",
               ok_detail=f"Display writes {SEP!r}, from_text retains c != {SEP!r}")


def run(chk, facts, tier, only=None):
    for rid, desc, fn in (("C16.R1", "Principal is built only by the length-checked constructors; fields not writable from outside (compile-fail witnesses)", r1),
                          ("C16.R2", "from_text returns Ok only behind the length, CRC and canonical-form comparisons; text entry points call it", r2),
                          ("C16.R3", "wire limit, CRC width, group size and separator constants agree", r3)):
        if only and only != rid:
            continue
        chk.run_rule(rid, desc, lambda fn=fn: fn(chk, facts))
