"""Operand-side provenance at HIR level: which of two operands (1 = left / expected, 2 = right / wire) a value derives from."""
from facts import callee, expr_path, nodes, pat_alternatives, unblock, walk

# ----------------------------------------------------------------------------- side provenance
def bind_names(pat, acc=None):
    acc = [] if acc is None else acc
    for n in walk(pat):
        if n.get("k") == "bind":
            acc.append(n["n"])
    return acc


ACCESSORS = {"get", "get_mut", "iter", "iter_mut", "into_iter", "map", "cloned", "copied", "collect", "unwrap", "as_ref",
             "clone", "deref", "keys", "values", "filter", "enumerate", "rev", "first", "last", "to_owned", "borrow",
             "unwrap_or", "expect", "ok", "ok_or_else", "with_context", "context", "map_err", "and_then", "contains_key",
             "find", "position", "is_some", "is_none", "len", "is_empty", "next"}


class Sides:
    """Which operand (1 = t1 / left, 2 = t2 / right) a local value is derived from, inside one arm."""

    def __init__(self, env, field_seeds=None):
        self.env = dict(env)
        self.zips = {}
        self.field_seeds = field_seeds or {}

    def bind_pat(self, pat, expr, default):
        """bind the names of `pat` to the sides of `expr`, component-wise when both are tuples / references to tuples"""
        e = expr
        while isinstance(e, dict) and e.get("k") in ("ref",):
            e = e["e"]
        e = unblock(e) if isinstance(e, dict) else e
        p = pat
        while isinstance(p, dict) and p.get("k") in ("ref", "deref"):
            p = p["sub"]
        if isinstance(e, dict) and e.get("k") == "tup" and isinstance(p, dict) and p.get("k") == "tuple" \
                and len(e["es"]) == len(p.get("subs", [])):
            for sub, ee in zip(p["subs"], e["es"]):
                self.bind_pat(sub, ee, self.of(ee))
            return
        if isinstance(p, dict) and p.get("k") == "or":
            for s in p["subs"]:
                self.bind_pat(s, expr, default)
            return
        for n in bind_names(pat):
            self.env[n] = default

    def of(self, e):
        if not isinstance(e, dict):
            return frozenset()
        k = e.get("k")
        if k == "path":
            r = e.get("res") or {}
            if r.get("kind") == "Local":
                return self.env.get(r["path"], frozenset())
            return frozenset()
        if k == "field":
            if e["n"] in self.field_seeds:
                return frozenset({self.field_seeds[e["n"]]})
            return self.of(e["e"])
        if k in ("ref", "cast"):
            return self.of(e["e"])
        if k == "tup":
            s = frozenset()
            for x in e.get("es", []):
                s |= self.of(x)
            return s
        if k == "un":
            return self.of(e["a"])
        if k == "index":
            return self.of(e["a"])
        if k == "mcall":
            s = self.of(e["recv"])
            if e["m"] in ACCESSORS:
                return s
            for a in e.get("args", []):
                s |= self.of(a)
            return s
        if k == "call":
            s = frozenset()
            for a in e.get("args", []):
                s |= self.of(a)
            return s
        if k == "block":
            return self.of(e.get("e")) if e.get("e") else frozenset()
        if k == "match":
            return self.of(e["scrut"])
        return frozenset()

    def scan(self, node):
        """walk statements in order, extending env through lets, for-loops and matches"""
        if isinstance(node, list):
            for x in node:
                self.scan(x)
            return
        if not isinstance(node, dict):
            return
        k = node.get("k")
        if k == "slet":
            if node.get("init") is not None:
                self.scan(node["init"])
                s = self.of(node["init"])
                self.bind_pat(node["pat"], node["init"], s)
            return
        if k == "match":
            self.scan(node["scrut"])
            s = self.of(node["scrut"])
            # for-loop desugaring: match into_iter(x) { mut iter => loop { match next(&mut iter) { Some(p) => body } } }
            zipinfo = None
            if node.get("src") == "ForLoopDesugar":
                sc = node["scrut"]
                if sc.get("k") == "call" and (callee(sc) or "").endswith("into_iter"):
                    x = unblock(sc["args"][0])
                    if isinstance(x, dict) and x.get("k") == "mcall" and x["m"] == "zip":
                        for a in node["arms"]:
                            for n in bind_names(a["pat"]):
                                self.zips[n] = (self.of(x["recv"]), self.of(x["args"][0]))
                elif sc.get("k") == "call" and (callee(sc) or "").endswith("next"):
                    for x in walk(sc):
                        if x.get("k") == "path" and (x.get("res") or {}).get("path") in self.zips:
                            zipinfo = self.zips[x["res"]["path"]]
            for a in node["arms"]:
                done = False
                if zipinfo:
                    for tp in [n for n in walk(a["pat"]) if n.get("k") == "tuple" and len(n.get("subs", [])) == 2]:
                        for i, sub in enumerate(tp["subs"]):
                            for n in bind_names(sub):
                                self.env[n] = zipinfo[i]
                        done = True
                        break
                if not done:
                    self.bind_pat(a["pat"], node["scrut"], s)
                if a.get("guard"):
                    self.scan(a["guard"])
                self.scan(a["body"])
            return
        if k == "closure":
            self.scan(node["body"])
            return
        for v in node.values():
            if isinstance(v, (dict, list)):
                self.scan(v)


