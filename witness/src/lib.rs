//! Witness crate of the static-analysis framework (DESIGN.md §2.4). Nothing in this crate is ever run.
//!
//! * `expand` — one small public function per `macro_rules!` type constructor of `candid`
//!   (`field!`, `record!`, `variant!`, `service!`). The macros are not expanded anywhere in the non-test workspace
//!   build, so their bodies are absent from the workspace fact files; the fact extractor is run over this crate
//!   (configuration `witness`) and rule C15.R3 reads the expansions from `witness.rlib.json`.
//!   The field order below is deliberately *not* sorted and the labels are arbitrary: the rule looks at the
//!   statements the macro generates, not at these arguments.
//! * `principal_*` — compile-fail doctests for C16.R1 (an external crate cannot write `Principal`'s fields), each
//!   with a compiling `no_run` twin that differs from it in exactly one line. `engine/rules/c16.py` runs
//!   `cargo +nightly test --doc --offline` here and reads the verdict per doctest (error codes are only checked on
//!   nightly). Naming convention used by c16.py: witness item `<name>`, twin item `<name>_twin`.

pub mod expand {
    use candid::types::{Type, TypeInner};
    use candid::CandidType;

    fn nat() -> Type {
        TypeInner::Nat.into()
    }

    /// `field!` with an identifier token
    pub fn w_field_named() -> candid::types::Field {
        candid::field! { some_name: nat() }
    }

    /// `field!` with a numeric token
    pub fn w_field_numeric() -> candid::types::Field {
        candid::field! { 42: nat() }
    }

    /// `record!` with unsorted, mixed named / numeric labels
    pub fn w_record() -> Type {
        candid::record! { b: nat(); 7: nat(); a: nat() }
    }

    /// `variant!` with unsorted, mixed named / numeric labels
    pub fn w_variant() -> Type {
        candid::variant! { y: nat(); 3: nat(); x: nat() }
    }

    /// `service!` with unsorted method names
    pub fn w_service() -> Type {
        candid::service! { "g": candid::func!((u8) -> (u8) query); "f": candid::func!(() -> ()) }
    }
}

/// C16.R1 witness: the struct literal with `Principal`'s private fields does not type-check outside `ic_principal`.
///
/// ```compile_fail,E0451
/// let p = ic_principal::Principal::from_slice(&[0u8; 29]);
/// let q = ic_principal::Principal { len: 30, bytes: [0u8; 29] };
/// let _ = (p, q);
/// ```
pub mod principal_literal {}

/// Twin of [`principal_literal`]: same program with the literal replaced by the checked constructor.
///
/// ```no_run
/// let p = ic_principal::Principal::from_slice(&[0u8; 29]);
/// let q = ic_principal::Principal::from_slice(&[0u8; 29]);
/// let _ = (p, q);
/// ```
pub mod principal_literal_twin {}

/// C16.R1 witness: functional record update cannot smuggle an out-of-range `len` in either (through the re-export
/// `candid::Principal`).
///
/// ```compile_fail,E0451
/// let p = candid::Principal::from_slice(&[0u8; 29]);
/// let q = candid::Principal { len: 30, ..p };
/// let _ = (p, q);
/// ```
pub mod principal_update {}

/// Twin of [`principal_update`].
///
/// ```no_run
/// let p = candid::Principal::from_slice(&[0u8; 29]);
/// let q = p;
/// let _ = (p, q);
/// ```
pub mod principal_update_twin {}

/// C16.R1 witness: the length field of an existing principal cannot be assigned from outside.
///
/// ```compile_fail,E0616
/// let mut p = ic_principal::Principal::from_slice(&[0u8; 29]);
/// p.len = 30;
/// let _ = p;
/// ```
pub mod principal_assign {}

/// Twin of [`principal_assign`].
///
/// ```no_run
/// let mut p = ic_principal::Principal::from_slice(&[0u8; 29]);
/// p = ic_principal::Principal::anonymous();
/// let _ = p;
/// ```
pub mod principal_assign_twin {}
