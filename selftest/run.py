#!/usr/bin/env python3
"""Self-test of the checkers: apply each mutant of mutants.json to a scratch copy of /repo (never to /repo itself),
re-extract, run the named checks and assert that the expected violation key is reported; then restore.
Usage: selftest/run.py [--only <id-substring>] [--keep] [--dir /tmp/verif-selftest]
The scratch copy and its cache live outside /repo and /verif and are removed at the end."""
import json
import os
import shutil
import subprocess
import sys
import time

HERE = os.path.dirname(os.path.abspath(__file__))
VERIF = os.path.dirname(HERE)


def main():
    args = sys.argv[1:]
    only = None
    prop = None
    keep = False
    d = "/tmp/verif-selftest"
    i = 0
    while i < len(args):
        if args[i] == "--only":
            only = args[i + 1]
            i += 2
        elif args[i] == "--prop":
            prop = args[i + 1]
            i += 2
        elif args[i] == "--keep":
            keep = True
            i += 1
        elif args[i] == "--dir":
            d = args[i + 1]
            i += 2
        else:
            i += 1
    muts = json.load(open(os.path.join(HERE, "mutants.json")))
    if only:
        muts = [m for m in muts if only in m["id"]]
    if prop:
        muts = [dict(m, props=[prop]) for m in muts if prop in m["props"]]
    subprocess.check_call([os.path.join(VERIF, "bin", "scratch"), d], stdout=subprocess.DEVNULL)
    env = dict(os.environ, VERIF_REPO=os.path.join(d, "repo"), VERIF_CACHE=os.path.join(d, "cache"),
               VERIF_EVIDENCE_DIR=os.path.join(d, "evidence"), VERIF_TIER="quick", VERIF_NO_SELFTEST="1")
    results = []
    try:
        for m in muts:
            path = os.path.join(d, "repo", m["file"])
            orig = open(path).read()
            if orig.count(m["find"]) != 1:
                results.append((m["id"], "STALE", f"pattern occurs {orig.count(m['find'])} times in {m['file']}"))
                continue
            open(path, "w").write(orig.replace(m["find"], m["replace"]))
            t0 = time.time()
            caught = []
            missed = []
            broken = None
            try:
                for prop in m["props"]:
                    r = subprocess.run([os.path.join(VERIF, "bin", "check"), prop], env=env, cwd=VERIF,
                                       stdout=subprocess.PIPE, stderr=subprocess.PIPE, text=True)
                    if "the tree does not build" in r.stderr or "cargo check failed" in r.stderr:
                        broken = r.stderr[-800:]
                        break
                    keys = [l.strip() for l in r.stdout.splitlines() if l.startswith("  ") and "|" in l]
                    hit = [k for k in keys if m["expect"] in k]
                    (caught if hit else missed).append((prop, hit[:1] or keys[:3]))
            finally:
                open(path, "w").write(orig)
            if broken:
                results.append((m["id"], "NOBUILD", broken))
            elif missed:
                results.append((m["id"], "MISSED", missed))
            else:
                results.append((m["id"], "CAUGHT", [c[1][0][:160] for c in caught]))
            print(f"{results[-1][1]:8} {m['id']} ({time.time() - t0:.0f}s) {results[-1][2] if results[-1][1] != 'CAUGHT' else ''}", flush=True)
    finally:
        if not keep:
            shutil.rmtree(d, ignore_errors=True)
    bad = [r for r in results if r[1] != "CAUGHT"]
    print(f"{len(results) - len(bad)}/{len(results)} mutants caught")
    return 1 if bad else 0


if __name__ == "__main__":
    sys.exit(main())
